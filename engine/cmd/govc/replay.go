package main

// Replay of a solver counterexample against the real code.
//
// For a failing obligation the deciding solver answered "sat" to, and a function whose inputs are plain
// data (strings, booleans, integers, structs / pointers / slices of those, and interface values holding such
// structs), the model is read back through an interactive solver session, turned into Go literals, and the
// REAL function is called on them from a test that exists only in a temporary directory (go test -overlay:
// nothing is written under the repository).  The oracle is differential: the same test runs against the
// function as committed at HEAD (for which the obligation is proved on every run of the registered checks)
// and against the working tree.  A panic in the working tree only, or a different result, is a failing
// input; anything else leaves the VIOLATION line with "no-failing-input-found".

import (
	"bufio"
	"encoding/json"
	"fmt"
	"go/types"
	"io"
	"os"
	"os/exec"
	"path/filepath"
	"sort"
	"strconv"
	"strings"
	"time"

	"golang.org/x/tools/go/ssa"
)

var replayBudget = 3 // replays per run (each costs a solver session and two go test builds)

func init() { tryReplay = replayObligation }

// ---------------------------------------------------------------------------------------------
// s-expressions

type sx struct {
	atom string
	list []*sx
	isList bool
}

func parseSx(s string) (*sx, string, error) {
	s = strings.TrimLeft(s, " \t\r\n")
	if s == "" {
		return nil, "", fmt.Errorf("empty")
	}
	if s[0] == '(' {
		out := &sx{isList: true}
		s = s[1:]
		for {
			s = strings.TrimLeft(s, " \t\r\n")
			if s == "" {
				return nil, "", fmt.Errorf("unterminated list")
			}
			if s[0] == ')' {
				return out, s[1:], nil
			}
			e, rest, err := parseSx(s)
			if err != nil {
				return nil, "", err
			}
			out.list = append(out.list, e)
			s = rest
		}
	}
	if s[0] == '"' {
		i := 1
		for i < len(s) {
			if s[i] == '"' {
				if i+1 < len(s) && s[i+1] == '"' {
					i += 2
					continue
				}
				break
			}
			i++
		}
		if i >= len(s) {
			return nil, "", fmt.Errorf("unterminated string")
		}
		return &sx{atom: s[:i+1]}, s[i+1:], nil
	}
	i := 0
	for i < len(s) && !strings.ContainsRune(" \t\r\n()", rune(s[i])) {
		i++
	}
	return &sx{atom: s[:i]}, s[i:], nil
}

func (e *sx) String() string {
	if !e.isList {
		return e.atom
	}
	parts := make([]string, len(e.list))
	for i, x := range e.list {
		parts[i] = x.String()
	}
	return "(" + strings.Join(parts, " ") + ")"
}

func (e *sx) head() string {
	if e.isList && len(e.list) > 0 && !e.list[0].isList {
		return e.list[0].atom
	}
	return ""
}

func (e *sx) intVal() (int64, bool) {
	if !e.isList {
		n, err := strconv.ParseInt(e.atom, 10, 64)
		return n, err == nil
	}
	if e.head() == "-" && len(e.list) == 2 {
		n, ok := e.list[1].intVal()
		return -n, ok
	}
	return 0, false
}

// smtString decodes an SMT-LIB string literal as printed by z3.
func smtString(a string) (string, bool) {
	if len(a) < 2 || a[0] != '"' || a[len(a)-1] != '"' {
		return "", false
	}
	a = strings.ReplaceAll(a[1:len(a)-1], `""`, `"`)
	var sb strings.Builder
	for i := 0; i < len(a); {
		if strings.HasPrefix(a[i:], `\u{`) {
			j := strings.IndexByte(a[i:], '}')
			if j > 0 {
				if n, err := strconv.ParseUint(a[i+3:i+j], 16, 32); err == nil {
					if n < 256 {
						sb.WriteByte(byte(n))
					} else {
						sb.WriteRune(rune(n))
					}
					i += j + 1
					continue
				}
			}
		}
		sb.WriteByte(a[i])
		i++
	}
	return sb.String(), true
}

// ---------------------------------------------------------------------------------------------
// interactive solver session

type session struct {
	cmd *exec.Cmd
	in  io.WriteCloser
	out *bufio.Reader
}

func openSession(script string) (*session, error) {
	cmd := exec.Command("z3-new", "-in", "-T:60")
	in, err := cmd.StdinPipe()
	if err != nil {
		return nil, err
	}
	outp, err := cmd.StdoutPipe()
	if err != nil {
		return nil, err
	}
	if err := cmd.Start(); err != nil {
		return nil, err
	}
	s := &session{cmd: cmd, in: in, out: bufio.NewReaderSize(outp, 1<<20)}
	// everything up to (and excluding) the first check-sat
	if i := strings.Index(script, "(check-sat"); i >= 0 {
		script = script[:i]
	}
	script = strings.ReplaceAll(script, "(set-option :timeout", "(set-option :rlimit-none-x")
	if _, err := io.WriteString(in, "(set-option :produce-models true)\n"+dropOptionLines(script)+"\n(check-sat)\n"); err != nil {
		s.close()
		return nil, err
	}
	line, err := s.readReply()
	if err != nil || strings.TrimSpace(line) != "sat" {
		s.close()
		return nil, fmt.Errorf("solver session: %q %v", strings.TrimSpace(line), err)
	}
	return s, nil
}

func dropOptionLines(script string) string {
	var out []string
	for _, l := range strings.Split(script, "\n") {
		t := strings.TrimSpace(l)
		if strings.HasPrefix(t, "(set-option :produce-models") || strings.HasPrefix(t, "(set-option :rlimit-none-x") {
			continue
		}
		out = append(out, l)
	}
	return strings.Join(out, "\n")
}

// readReply reads one balanced s-expression (or one atom line).
func (s *session) readReply() (string, error) {
	type res struct {
		s   string
		err error
	}
	ch := make(chan res, 1)
	go func() {
		var sb strings.Builder
		depth, started, inStr := 0, false, false
		for {
			b, err := s.out.ReadByte()
			if err != nil {
				ch <- res{sb.String(), err}
				return
			}
			sb.WriteByte(b)
			switch {
			case b == '"':
				inStr = !inStr
				started = true
			case inStr:
			case b == '(':
				depth++
				started = true
			case b == ')':
				depth--
			case b == '\n':
				if started && depth == 0 {
					ch <- res{sb.String(), nil}
					return
				}
			case b != ' ' && b != '\t' && b != '\r':
				started = true
			}
		}
	}()
	select {
	case r := <-ch:
		return r.s, r.err
	case <-time.After(60 * time.Second):
		return "", fmt.Errorf("solver session timed out")
	}
}

func (s *session) eval(term string) (*sx, error) {
	if _, err := io.WriteString(s.in, "(get-value ("+term+"))\n"); err != nil {
		return nil, err
	}
	r, err := s.readReply()
	if err != nil {
		return nil, err
	}
	e, _, err := parseSx(r)
	if err != nil || !e.isList || len(e.list) != 1 || !e.list[0].isList || len(e.list[0].list) != 2 {
		return nil, fmt.Errorf("unexpected get-value reply %q", strings.TrimSpace(r))
	}
	return e.list[0].list[1], nil
}

func (s *session) close() {
	_ = s.in.Close()
	done := make(chan struct{})
	go func() { _ = s.cmd.Wait(); close(done) }()
	select {
	case <-done:
	case <-time.After(2 * time.Second):
		_ = s.cmd.Process.Kill()
	}
}

// ---------------------------------------------------------------------------------------------
// model -> Go literals

type reader struct {
	w       *World
	enc     *Enc
	s       *session
	pkg     *types.Package // the package the test lives in
	imports map[string]string
	nodes   int
	err     error
}

type cannot struct{ why string }

// tooLong: the model chose a long slice for an unconstrained input; the replay asks for a shorter one.
type tooLong struct{ term string }

// retryWith: ask the solver for another counterexample that satisfies one more constraint on the inputs.
type retryWith struct{ assert string }

func (r *reader) fail(format string, a ...any) { panic(cannot{fmt.Sprintf(format, a...)}) }

func (r *reader) qual(p *types.Package) string {
	if p == r.pkg {
		return ""
	}
	r.imports[p.Path()] = p.Name()
	return p.Name()
}

func (r *reader) typeName(t types.Type) string { return types.TypeString(t, r.qual) }

func (r *reader) heap(name string) string {
	t, ok := r.enc.heap0[name]
	if !ok {
		return ""
	}
	return t.String()
}

// value renders the Go expression of type t denoted by the evaluated s-expression v.
func (r *reader) value(t types.Type, v *sx, term string) string {
	r.nodes++
	if r.nodes > 400 {
		r.fail("input too large")
	}
	switch u := t.Underlying().(type) {
	case *types.Basic:
		var lit string
		switch {
		case u.Info()&types.IsString != 0:
			s, ok := smtString(v.atom)
			if !ok {
				r.fail("string value %s", v)
			}
			lit = strconv.Quote(s)
		case u.Info()&types.IsBoolean != 0:
			lit = v.atom
		case u.Info()&types.IsInteger != 0:
			n, ok := v.intVal()
			if !ok {
				r.fail("integer value %s", v)
			}
			lit = strconv.FormatInt(n, 10)
		default:
			r.fail("basic type %s", t)
		}
		if _, named := t.(*types.Named); named {
			return r.typeName(t) + "(" + lit + ")"
		}
		return lit
	case *types.Struct:
		ssv := r.w.structSort(t)
		return r.structLit(t, u, func(i int) (*sx, string) {
			if !v.isList || len(v.list) != u.NumFields()+1 {
				if u.NumFields() == 0 {
					return nil, ""
				}
				r.fail("struct value %s", v)
			}
			return v.list[i+1], "(" + ssv.acc(i) + " " + term + ")"
		})
	case *types.Pointer:
		n, ok := v.intVal()
		if !ok {
			r.fail("reference %s", v)
		}
		if n == 0 {
			return "nil"
		}
		st, ok := u.Elem().Underlying().(*types.Struct)
		if !ok {
			r.fail("pointer to %s", u.Elem())
		}
		if isBuilderType(u.Elem()) {
			r.fail("pointer to a builder")
		}
		ss := r.w.structSort(u.Elem())
		return "&" + r.structLit(u.Elem(), st, func(i int) (*sx, string) {
			h := r.heap(heapFieldName(ss, i))
			if h == "" {
				return nil, "" // never read: zero value
			}
			ft := fmt.Sprintf("(select %s %s)", h, term)
			fv, err := r.s.eval(ft)
			if err != nil {
				if strings.Contains(err.Error(), "unknown constant") {
					return nil, "" // not part of this obligation's script: never read, zero value
				}
				r.fail("%v", err)
			}
			return fv, ft
		})
	case *types.Slice:
		if v.head() != "mk_slice" || len(v.list) != 5 {
			r.fail("slice value %s", v)
		}
		base, _ := v.list[1].intVal()
		ln, ok := v.list[3].intVal()
		if !ok || ln < 0 {
			r.fail("slice length %s", v.list[3])
		}
		if ln > 3 {
			panic(tooLong{term})
		}
		if ln == 0 {
			if base == 0 {
				return "nil"
			}
			return r.typeName(t) + "{}"
		}
		h := r.heap(heapSliceNameT(u.Elem()))
		var elems []string
		for i := int64(0); i < ln; i++ {
			if h == "" {
				elems = append(elems, r.zero(u.Elem()))
				continue
			}
			et := fmt.Sprintf("(select (select %s (s_base %s)) (+ (s_off %s) %d))", h, term, term, i)
			ev, err := r.s.eval(et)
			if err != nil {
				if strings.Contains(err.Error(), "unknown constant") {
					elems = append(elems, r.zero(u.Elem()))
					continue
				}
				r.fail("%v", err)
			}
			elems = append(elems, r.value(u.Elem(), ev, et))
		}
		return r.typeName(t) + "{" + strings.Join(elems, ", ") + "}"
	case *types.Interface:
		if !v.isList && v.atom == "any_nil" {
			return "nil"
		}
		h := v.head()
		if strings.HasPrefix(h, "box_S_") && len(v.list) == 2 {
			ss := r.w.bySortName[strings.TrimPrefix(h, "box_")]
			if ss == nil || ss.Named == nil {
				r.fail("boxed sort %s", h)
			}
			if !types.AssignableTo(ss.Named, t) {
				r.fail("%s does not implement %s", ss.Named, t)
			}
			return r.value(ss.Named, v.list[1], "(un_"+ss.Name+" "+term+")")
		}
		// the model picked an implementation no Go value can be built for: ask for one of the struct
		// implementations declared in the repository instead
		var alts []string
		for _, ss := range r.w.structOrder {
			if ss.Named != nil && types.AssignableTo(ss.Named, t) && plainData(ss.Named, r.pkg, 0) {
				alts = append(alts, fmt.Sprintf("((_ is box_%s) %s)", ss.Name, term))
			}
		}
		if len(alts) > 0 && (v.head() == "box_ptr" || v.head() == "box_other" || v.head() == "box_str" || v.head() == "box_int" || v.head() == "box_bool" || strings.HasPrefix(v.head(), "box_S_")) {
			sort.Strings(alts)
			panic(retryWith{"(or " + strings.Join(alts, " ") + " false)"})
		}
		r.fail("interface value %s", v)
	}
	r.fail("type %s is not plain data", t)
	return ""
}

func (r *reader) zero(t types.Type) string {
	switch u := t.Underlying().(type) {
	case *types.Basic:
		switch {
		case u.Info()&types.IsString != 0:
			return `""`
		case u.Info()&types.IsBoolean != 0:
			return "false"
		case u.Info()&types.IsInteger != 0:
			return "0"
		}
	case *types.Struct:
		return r.typeName(t) + "{}"
	}
	return "nil"
}

func (r *reader) structLit(t types.Type, st *types.Struct, field func(i int) (*sx, string)) string {
	if _, named := t.(*types.Named); !named {
		r.fail("unnamed struct type")
	}
	var parts []string
	for i := 0; i < st.NumFields(); i++ {
		f := st.Field(i)
		if !f.Exported() && f.Pkg() != r.pkg {
			r.fail("unexported field %s of %s", f.Name(), t)
		}
		fv, ft := field(i)
		if fv == nil {
			continue
		}
		parts = append(parts, f.Name()+": "+r.value(f.Type(), fv, ft))
	}
	return r.typeName(t) + "{" + strings.Join(parts, ", ") + "}"
}

// plainData reports whether values of t can be built from a model at all (cheap pre-check).
func plainData(t types.Type, pkg *types.Package, depth int) bool {
	if depth > 6 {
		return true
	}
	switch u := t.Underlying().(type) {
	case *types.Basic:
		return u.Info()&(types.IsString|types.IsBoolean|types.IsInteger) != 0
	case *types.Struct:
		if n, ok := t.(*types.Named); !ok || n.Obj().Pkg() == nil || !strings.HasPrefix(n.Obj().Pkg().Path(), repoMod) {
			return false
		}
		for i := 0; i < u.NumFields(); i++ {
			f := u.Field(i)
			if (!f.Exported() && f.Pkg() != pkg) || !plainData(f.Type(), pkg, depth+1) {
				return false
			}
		}
		return true
	case *types.Pointer:
		_, ok := u.Elem().Underlying().(*types.Struct)
		return ok && !isBuilderType(u.Elem()) && plainData(u.Elem(), pkg, depth+1)
	case *types.Slice:
		return plainData(u.Elem(), pkg, depth+1)
	case *types.Interface:
		if n, ok := t.(*types.Named); ok && n.Obj().Pkg() != nil && strings.HasPrefix(n.Obj().Pkg().Path(), repoMod) {
			return true // implementations are checked when a value is read
		}
		return false
	}
	return false
}

// ---------------------------------------------------------------------------------------------
// the replay itself

func replayObligation(w *World, opt verifyOpts, o *Obligation) (note string, reproduced bool) {
	if replayBudget <= 0 || o.enc == nil || o.enc.fn == nil || o.Script == "" {
		return "", false
	}
	fn := o.enc.fn
	if fn.Pkg == nil || fn.Parent() != nil || fn.Signature.Variadic() || fn.TypeParams().Len() > 0 {
		return "", false
	}
	pkg := fn.Pkg.Pkg
	for _, p := range fn.Params {
		if !plainData(p.Type(), pkg, 0) {
			return "replay: parameter " + p.Name() + " of type " + p.Type().String() + " is not plain data (no Go value can be built from the model)", false
		}
	}
	replayBudget--
	defer func() {
		if r := recover(); r != nil {
			if c, ok := r.(cannot); ok {
				note, reproduced = "replay: model could not be turned into Go values: "+c.why, false
				return
			}
			panic(r)
		}
	}()
	script, err := os.ReadFile(o.Script)
	if err != nil {
		return "replay: " + err.Error(), false
	}
	ses, err := openSession(string(script))
	if err != nil {
		return "replay: " + err.Error(), false
	}
	defer ses.close()
	var rd *reader
	var args []string
	for attempt := 0; ; attempt++ {
		rd = &reader{w: w, enc: o.enc, s: ses, pkg: pkg, imports: map[string]string{}}
		args = nil
		long := ""
		func() {
			defer func() {
				if r := recover(); r != nil {
					if tl, ok := r.(tooLong); ok {
						long = "(<= (s_len " + tl.term + ") 2)"
						return
					}
					if rw, ok := r.(retryWith); ok {
						long = rw.assert
						return
					}
					panic(r)
				}
			}()
			for _, in := range o.enc.inputs {
				v, err := ses.eval(in.T.String())
				if err != nil {
					rd.fail("%v", err)
				}
				args = append(args, rd.value(in.Ty, v, in.T.String()))
			}
		}()
		if long == "" {
			break
		}
		if attempt >= 25 {
			return "replay: the model keeps choosing values no Go input can be built from", false
		}
		// ask for a model with a short slice here (the obligation's counterexamples are not minimal)
		if _, err := io.WriteString(ses.in, "(assert "+long+")\n(check-sat)\n"); err != nil {
			return "replay: " + err.Error(), false
		}
		if rep, err := ses.readReply(); err != nil || strings.TrimSpace(rep) != "sat" {
			return "replay: no counterexample among the inputs Go values can be built for (" + strings.TrimSpace(rep) + ")", false
		}
	}
	src := replayTestSource(fn, args, rd.imports)
	dir, err := os.MkdirTemp("", "govc-replay-")
	if err != nil {
		return "replay: " + err.Error(), false
	}
	defer os.RemoveAll(dir)
	rel := strings.TrimPrefix(strings.TrimPrefix(pkg.Path(), repoMod), "/")
	work, werr := runReplayTest(opt.repo, rel, src, dir, "work")
	// the committed version of the same function
	headDir := filepath.Join(dir, "head")
	head, herr := "", fmt.Errorf("no committed version available")
	if err := os.MkdirAll(headDir, 0755); err == nil {
		if exec.Command("sh", "-c", fmt.Sprintf("git -C %q archive HEAD | tar -x -C %q", opt.repo, headDir)).Run() == nil {
			head, herr = runReplayTest(headDir, rel, src, dir, "head")
		}
	}
	// a difference only counts when the function is deterministic on this input
	stable := true
	if werr == nil && herr == nil && work != head {
		if again, err := runReplayTest(opt.repo, rel, src, dir, "work2"); err != nil || again != work {
			stable = false
		}
	}
	rec := map[string]any{"function": fn.String(), "arguments": args, "test_source": src, "working_tree": work, "committed_HEAD": head, "deterministic_on_rerun": stable}
	if werr != nil {
		rec["working_tree_error"] = werr.Error()
	}
	if herr != nil {
		rec["committed_HEAD_error"] = herr.Error()
	}
	b, _ := json.MarshalIndent(rec, "", " ")
	switch {
	case werr != nil:
		return "replay: the test could not be run on the working tree: " + string(b), false
	case strings.HasPrefix(o.Kind, "safety") && strings.Contains(work, "REPLAY-PANIC"):
		return "failing input found: the real function panics on the model's input: " + string(b), true
	case herr == nil && work != head && stable:
		return "failing input found: on the model's input the working tree does not behave like the committed code for which this obligation is proved: " + string(b), true
	}
	return "replay: the real function was run on the model's input; no difference from the committed code observed: " + string(b), false
}

func runReplayTest(tree, rel, src, tmp, tag string) (string, error) {
	testFile := filepath.Join(tmp, tag+"_replay_test.go")
	if err := os.WriteFile(testFile, []byte(src), 0644); err != nil {
		return "", err
	}
	target := filepath.Join(tree, rel, "zz_verif_replay_test.go")
	ov, _ := json.Marshal(map[string]any{"Replace": map[string]string{target: testFile}})
	ovFile := filepath.Join(tmp, tag+"_overlay.json")
	if err := os.WriteFile(ovFile, ov, 0644); err != nil {
		return "", err
	}
	cmd := exec.Command("go", "test", "-overlay", ovFile, "-vet=off", "-count=1", "-v", "-timeout", "60s", "-run", "^TestVerifReplay$", "./"+rel)
	cmd.Dir = tree
	cmd.Env = append(os.Environ(), "GOFLAGS=-mod=mod", "GOPROXY=off", "GOSUMDB=off", "GOTOOLCHAIN=local")
	out, err := cmd.CombinedOutput()
	var lines []string
	for _, l := range strings.Split(string(out), "\n") {
		if strings.HasPrefix(l, "REPLAY-") {
			lines = append(lines, l)
		}
	}
	if len(lines) == 0 {
		msg := string(out)
		if len(msg) > 1500 {
			msg = msg[:1500]
		}
		return "", fmt.Errorf("no replay output (%v): %s", err, msg)
	}
	return strings.Join(lines, "\n"), nil
}

func replayTestSource(fn *ssa.Function, args []string, imports map[string]string) string {
	pkg := fn.Pkg.Pkg
	var sb strings.Builder
	fmt.Fprintf(&sb, "package %s\n\nimport (\n\t\"fmt\"\n\t\"reflect\"\n\t\"testing\"\n", pkg.Name())
	paths := make([]string, 0, len(imports))
	for p := range imports {
		paths = append(paths, p)
	}
	sort.Strings(paths)
	for _, p := range paths {
		fmt.Fprintf(&sb, "\t%s %q\n", imports[p], p)
	}
	sb.WriteString(")\n\n")
	sb.WriteString(`func verifDump(v reflect.Value, depth int) string {
	if depth > 8 || !v.IsValid() {
		return "?"
	}
	switch v.Kind() {
	case reflect.String:
		return fmt.Sprintf("%q", v.String())
	case reflect.Bool:
		return fmt.Sprint(v.Bool())
	case reflect.Int, reflect.Int8, reflect.Int16, reflect.Int32, reflect.Int64:
		return fmt.Sprint(v.Int())
	case reflect.Uint, reflect.Uint8, reflect.Uint16, reflect.Uint32, reflect.Uint64:
		return fmt.Sprint(v.Uint())
	case reflect.Ptr, reflect.Interface:
		if v.IsNil() {
			return "nil"
		}
		if v.Kind() == reflect.Interface && v.CanInterface() {
			if e, ok := v.Interface().(error); ok {
				return fmt.Sprintf("error(%q)", e.Error())
			}
		}
		return v.Elem().Type().String() + ":" + verifDump(v.Elem(), depth+1)
	case reflect.Slice:
		if v.IsNil() {
			return "nil"
		}
		s := "["
		for i := 0; i < v.Len(); i++ {
			s += verifDump(v.Index(i), depth+1) + ","
		}
		return s + "]"
	case reflect.Struct:
		s := "{"
		for i := 0; i < v.NumField(); i++ {
			s += v.Type().Field(i).Name + ":" + verifDump(v.Field(i), depth+1) + ","
		}
		return s + "}"
	}
	return v.Kind().String()
}

`)
	sb.WriteString("func TestVerifReplay(t *testing.T) {\n")
	sb.WriteString("\tdefer func() {\n\t\tif r := recover(); r != nil {\n\t\t\tfmt.Printf(\"REPLAY-PANIC %v\\n\", r)\n\t\t}\n\t}()\n")
	for i, a := range args {
		fmt.Fprintf(&sb, "\targ%d := %s\n", i, a)
	}
	nres := fn.Signature.Results().Len()
	var lhs []string
	for i := 0; i < nres; i++ {
		lhs = append(lhs, fmt.Sprintf("r%d", i))
	}
	call := ""
	var names []string
	for i := range args {
		names = append(names, fmt.Sprintf("arg%d", i))
	}
	if fn.Signature.Recv() != nil {
		call = fmt.Sprintf("%s.%s(%s)", names[0], fn.Name(), strings.Join(names[1:], ", "))
	} else {
		call = fmt.Sprintf("%s(%s)", fn.Name(), strings.Join(names, ", "))
	}
	if nres > 0 {
		fmt.Fprintf(&sb, "\t%s := %s\n", strings.Join(lhs, ", "), call)
	} else {
		fmt.Fprintf(&sb, "\t%s\n", call)
	}
	for i := 0; i < nres; i++ {
		fmt.Fprintf(&sb, "\tfmt.Printf(\"REPLAY-RESULT %d %%s\\n\", verifDump(reflect.ValueOf(&r%d).Elem(), 0))\n", i, i)
	}
	// the (possibly mutated) inputs are part of the observable behaviour
	for i := range args {
		fmt.Fprintf(&sb, "\tfmt.Printf(\"REPLAY-ARG %d %%s\\n\", verifDump(reflect.ValueOf(&arg%d).Elem(), 0))\n", i, i)
	}
	sb.WriteString("}\n")
	return sb.String()
}
