package main

import (
	"encoding/json"
	"fmt"
	"os"
	"path/filepath"
	"regexp"
	"sort"
	"strconv"
	"strings"
	"time"

	"golang.org/x/tools/go/ssa"
)

type verifyOpts struct {
	prop, tier, evidence, known, replays, keep, repo string
	onlyObl                                          string // replay: solve this obligation only
	all, sweep                                       bool
	loadS                                            float64
}

type KnownFinding struct {
	Kind       string `json:"kind"` // known | fixed
	Property   string `json:"property"`
	Obligation string `json:"obligation"` // regexp over obligation names ("func:kind#n") or clause text
	Clause     string `json:"clause,omitempty"`
	Region     string `json:"region,omitempty"` // contract-language predicate over the function's parameters
	What       string `json:"what"`
	Witness    string `json:"witness,omitempty"`
	Commit     string `json:"commit,omitempty"`
	ID         string `json:"id,omitempty"`
}

type knownFile struct {
	Findings []*KnownFinding `json:"findings"`
}

func loadKnown(path string) ([]*KnownFinding, error) {
	b, err := os.ReadFile(path)
	if err != nil {
		if os.IsNotExist(err) {
			return nil, nil
		}
		return nil, err
	}
	var kf knownFile
	if err := json.Unmarshal(b, &kf); err != nil {
		return nil, fmt.Errorf("%s: %v", path, err)
	}
	return kf.Findings, nil
}

func hasTag(tags []string, p string) bool {
	for _, t := range tags {
		if t == p {
			return true
		}
	}
	return false
}

func (fc *FuncContract) hasProp(p string) bool {
	for _, q := range fc.propSet() {
		if q == p {
			return true
		}
	}
	return false
}

// matchFinding: does the known finding address this obligation?
func (kf *KnownFinding) matches(o *Obligation) bool {
	if kf.Kind != "known" {
		return false
	}
	if !strings.HasPrefix(o.Name, kf.funcPart()+":") {
		return false
	}
	if kf.Clause != "" {
		return strings.Contains(o.Clause, kf.Clause) && strings.Contains(o.Name, kf.kindPart())
	}
	re, err := regexp.Compile("^" + kf.Obligation + "$")
	if err != nil {
		return false
	}
	return re.MatchString(o.Name)
}

func (kf *KnownFinding) funcPart() string {
	i := strings.Index(kf.Obligation, ":")
	if i < 0 {
		return kf.Obligation
	}
	return kf.Obligation[:i]
}

func (kf *KnownFinding) kindPart() string {
	i := strings.Index(kf.Obligation, ":")
	if i < 0 {
		return ""
	}
	k := kf.Obligation[i+1:]
	if j := strings.Index(k, "#"); j >= 0 {
		k = k[:j]
	}
	return k
}

func runVerify(w *World, opt verifyOpts) int {
	t0 := time.Now()
	P := w.P
	seed := 0
	if s := os.Getenv("VERIF_SEED"); s != "" {
		if n, err := strconv.Atoi(s); err == nil {
			seed = n
		}
	}
	known, err := loadKnown(opt.known)
	if err != nil {
		fmt.Fprintln(os.Stderr, "govc:", err)
		return 2
	}
	thorough := opt.tier == "thorough"
	secs, depth := 60, 2
	if thorough {
		secs, depth = 180, 3
	}

	// functions of this property
	var results []*FuncResult
	var missing []string
	var fnames []string
	var undecidedExtra []string
	for _, k := range sortedKeys(P.Contracts) {
		fc := P.Contracts[k]
		if fc.Lib || fc.Inline || fc.Behaviour {
			continue
		}
		if !opt.all && !fc.hasProp(opt.prop) {
			continue
		}
		f := P.Funcs[k]
		if f == nil || f.Blocks == nil {
			missing = append(missing, k)
			continue
		}
		fnames = append(fnames, k)
	}
	// thorough: also re-prove, in full, every function under contract that the property's functions call
	// (transitively): the contracts this property's proofs were checked against
	deps := map[string]bool{}
	if thorough && !opt.all {
		// functions the property owns entirely; those it owns only for some obligation kinds (fileprops P:kinds)
		// are re-proved in full like any other dependency when an entirely owned function calls them
		have := map[string]bool{}
		inList := map[string]bool{}
		var work []string
		for _, k := range fnames {
			inList[k] = true
			full := false
			for _, q := range P.Contracts[k].fullPropSet() {
				if q == opt.prop {
					full = true
				}
			}
			if full {
				have[k] = true
				work = append(work, k)
			}
		}
		for len(work) > 0 {
			k := work[0]
			work = work[1:]
			f := P.Funcs[k]
			if f == nil {
				continue
			}
			fs := []*ssa.Function{f}
			for i := 0; i < len(fs); i++ {
				fs = append(fs, fs[i].AnonFuncs...)
			}
			for _, g := range fs {
				for _, b := range g.Blocks {
					for _, ins := range b.Instrs {
						ci, ok := ins.(ssa.CallInstruction)
						if !ok {
							continue
						}
						callee := ci.Common().StaticCallee()
						if callee == nil {
							continue
						}
						ck := callee.String()
						fc := P.Contracts[ck]
						if fc == nil || fc.Lib || fc.Inline || fc.Behaviour || have[ck] || callee.Blocks == nil {
							continue
						}
						have[ck] = true
						deps[ck] = true
						if !inList[ck] {
							inList[ck] = true
							fnames = append(fnames, ck)
						}
						work = append(work, ck)
					}
				}
			}
		}
	}
	depNames := map[string]bool{}
	for k := range deps {
		depNames[shortTypeName(k)] = true
	}
	for _, k := range fnames {
		results = append(results, w.verifyFunction(P.Funcs[k], P.Contracts[k]))
		// function literals returned under a declared behaviour are verified against it
		fc := P.Contracts[k]
		for i, rn := range fc.Results {
			bn := fc.Behaves[rn]
			if bn == "" {
				continue
			}
			bc := P.Contracts["behaviour:"+bn]
			if bc == nil {
				undecidedExtra = append(undecidedExtra, shortTypeName(k)+": behaviour "+bn+" not declared")
				continue
			}
			_ = i
			for _, af := range P.Funcs[k].AnonFuncs {
				if len(af.Params) != len(bc.Params) {
					continue
				}
				cp := *bc
				cp.Props = fc.propSet()
				results = append(results, w.verifyFunction(af, &cp))
			}
		}
	}
	// package initialisers that establish declared facts about constant globals
	initPkgs := map[string]bool{}
	for k, g := range P.Globals {
		if !g.Lib {
			initPkgs[k[:strings.LastIndex(k, ".")]] = true
		}
	}
	for _, pk := range sortedKeys(initPkgs) {
		if f := P.Funcs[pk+".init"]; f != nil && f.Blocks != nil {
			results = append(results, w.verifyFunction(f, nil))
		}
	}
	// other functions that assign fact-carrying globals must have a contract (so they are verified)
	for _, k := range sortedKeys(P.Funcs) {
		f := P.Funcs[k]
		if f.Blocks == nil || f.Pkg == nil || !strings.HasPrefix(f.Pkg.Pkg.Path(), repoMod) || f.Name() == "init" || P.Contracts[k] != nil {
			continue
		}
		for g := range storedGlobals(f) {
			if gf, ok := P.Globals[g]; ok && !gf.Lib {
				results = append(results, w.verifyFunction(f, nil))
				break
			}
		}
	}
	// an atcall clause whose anchoring call no longer occurs would generate no obligation at all: report it
	for _, k := range sortedKeys(P.Contracts) {
		fc := P.Contracts[k]
		if fc.Lib || fc.Behaviour {
			continue
		}
		verified := false
		for _, n := range fnames {
			if n == k {
				verified = true
			}
		}
		if !verified && !(fc.Inline && fc.Used) {
			continue
		}
		for _, ac := range fc.AtCalls {
			if !ac.Matched && (opt.all || len(ac.Tags) == 0 || hasTag(ac.Tags, opt.prop)) {
				undecidedExtra = append(undecidedExtra, shortTypeName(k)+": atcall clause anchored to "+ac.Kind+" matched no call ("+ac.Where()+": "+ac.Text+")")
			}
		}
	}
	globalProblems := checkGlobalsConstant(P)
	// zero-annotation sweep (safety obligations of functions without contract)
	if opt.sweep {
		for _, k := range sortedKeys(P.Funcs) {
			f := P.Funcs[k]
			if f.Blocks == nil || f.Pkg == nil || !strings.HasPrefix(f.Pkg.Pkg.Path(), repoMod) || f.Synthetic != "" {
				continue
			}
			if P.Contracts[k] != nil || sweepSkip(f) {
				continue
			}
			results = append(results, w.verifyFunction(f, nil))
		}
	}

	var obls []*Obligation
	violations := 0
	var lines []string
	undecided := undecidedExtra
	for _, r := range results {
		if r.Unsupported != "" {
			undecided = append(undecided, r.Name+": "+r.Unsupported)
			continue
		}
		for _, o := range r.Obls {
			if opt.onlyObl != "" && o.Name != opt.onlyObl {
				continue
			}
			if opt.all || (len(o.Tags) == 0 && r.Contract.ownsUntagged(opt.prop, o.Kind)) || hasTag(o.Tags, opt.prop) || depNames[o.Func] {
				obls = append(obls, o)
			}
		}
	}
	// known-finding carve-outs
	for _, o := range obls {
		for _, kf := range known {
			if kf.Property != opt.prop && !opt.all && !depNames[o.Func] {
				continue
			}
			if kf.matches(o) {
				o.Findings = append(o.Findings, kf)
				if kf.Region != "" {
					if h, err := regionHyp(w, o, kf.Region); err == nil {
						o.Hyps = append(o.Hyps, Not(h))
						o.HypOf = append(o.HypOf, kf)
						o.Carved = true
					} else {
						fmt.Fprintln(os.Stderr, "govc: known finding region:", err)
					}
				}
			}
		}
	}

	workDir := opt.keep
	if workDir == "" {
		d, err := os.MkdirTemp("", "govc-")
		if err != nil {
			fmt.Fprintln(os.Stderr, err)
			return 2
		}
		workDir = d
		defer os.RemoveAll(d)
	} else {
		_ = os.MkdirAll(workDir, 0755)
	}
	solveAll(w, obls, secs, depth, seed, workDir, thorough)

	_ = os.RemoveAll(filepath.Join(opt.replays, opt.prop))
	_ = os.MkdirAll(filepath.Join(opt.replays, opt.prop), 0755)
	discharged := 0
	nObl := 0
	var solverMs int64
	type oblRec struct {
		Name   string   `json:"name"`
		Kind   string   `json:"kind"`
		Tags   []string `json:"tags,omitempty"`
		Where  string   `json:"where"`
		Clause string   `json:"clause,omitempty"`
		Result string   `json:"result"`
		Solver string   `json:"solver"`
		Ms     int64    `json:"ms"`
		Note   string   `json:"note,omitempty"`
	}
	var recs []oblRec
	var samples []any
	var carveNotes []string
	vacuityChecks := 0
	kfPrinted := map[*KnownFinding]bool{}
	for _, o := range obls {
		solverMs += o.Ms
		rec := oblRec{Name: o.Name, Kind: o.Kind, Tags: o.Tags, Where: o.Where, Clause: o.Clause, Result: o.Result, Solver: o.Solver, Ms: o.Ms}
		if o.MustFail {
			vacuityChecks++
			if o.Result == "unsat" {
				// assumptions contradictory: the function's proofs are vacuous
				violations++
				path := writeReplay(opt, o, "vacuity: the assumptions of this function are contradictory (all its proofs are vacuous)", "")
				lines = append(lines, fmt.Sprintf("VIOLATION property=%s replay=%s no-failing-input-found", opt.prop, path))
				rec.Note = "VACUOUS"
			} else {
				rec.Note = "reachable (as required)"
			}
			recs = append(recs, rec)
			continue
		}
		nObl++
		ok := o.Result == "unsat"
		var whole *KnownFinding
		for _, kf := range o.Findings {
			if kf.Region == "" {
				whole = kf
			}
		}
		if whole != nil && !ok {
			// finding without a region: the whole obligation is the finding
			if !kfPrinted[whole] {
				lines = append(lines, fmt.Sprintf("KNOWN-FINDING: property=%s %s [%s]", opt.prop, whole.What, o.Name))
				kfPrinted[whole] = true
			}
			rec.Note = "known finding (whole obligation): " + whole.What
			carveNotes = append(carveNotes, o.Name+": not discharged, known finding: "+whole.What)
			recs = append(recs, rec)
			nObl--
			continue
		}
		if o.Carved && ok {
			for j, kf := range o.HypOf {
				if o.DropRes[j] != "unsat" {
					// the obligation still fails inside this finding's region: the defect is still there
					if !kfPrinted[kf] {
						kprop := opt.prop
						if kf.Property != opt.prop && !opt.all {
							kprop = kf.Property // a dependency's obligation (thorough tier): the finding is listed under its own property
						}
						lines = append(lines, fmt.Sprintf("KNOWN-FINDING: property=%s %s %s [%s proved outside region: %s]", kprop, kf.ID, kf.What, o.Name, kf.Region))
						kfPrinted[kf] = true
					}
					rec.Note += "proved under NOT(" + kf.Region + "); "
					carveNotes = append(carveNotes, o.Name+": proved only under NOT("+kf.Region+"): "+kf.What)
				} else {
					rec.Note += "finding " + kf.ID + " no longer needed (obligation discharges without its carve-out); "
				}
			}
		}
		if ok {
			discharged++
		} else {
			violations++
			replayNote, replayed := "", false
			if o.Result == "sat" {
				replayNote, replayed = tryReplay(w, opt, o)
			}
			path := writeReplay(opt, o, "", replayNote)
			suffix := ""
			if !replayed {
				suffix = " no-failing-input-found"
			}
			lines = append(lines, fmt.Sprintf("VIOLATION property=%s replay=%s%s", opt.prop, path, suffix))
		}
		recs = append(recs, rec)
		if len(samples) < 4 && ok && (strings.HasPrefix(o.Kind, "ensures") || strings.Contains(o.Kind, "inv")) {
			samples = append(samples, map[string]any{"obligation": o.Name, "clause": o.Clause, "where": o.Where, "solver": o.Solver, "ms": o.Ms, "result": o.Result})
		}
	}
	for _, gp := range globalProblems {
		violations++
		path := filepath.Join(opt.replays, opt.prop, "global_"+mangle(gp)+".json")
		b, _ := json.MarshalIndent(map[string]any{"obligation": "global-constant", "problem": gp}, "", " ")
		_ = os.WriteFile(path, b, 0644)
		lines = append(lines, fmt.Sprintf("VIOLATION property=%s replay=%s no-failing-input-found", opt.prop, path))
	}
	for _, m := range missing {
		violations++
		path := filepath.Join(opt.replays, opt.prop, "missing_"+mangle(shortTypeName(m))+".json")
		b, _ := json.MarshalIndent(map[string]any{"obligation": shortTypeName(m) + ":target", "problem": "UNDECIDED: contract target missing (function renamed or removed); its obligations cannot be generated"}, "", " ")
		_ = os.WriteFile(path, b, 0644)
		lines = append(lines, fmt.Sprintf("VIOLATION property=%s replay=%s no-failing-input-found", opt.prop, path))
	}
	for _, u := range undecided {
		violations++
		name := strings.SplitN(u, ":", 2)[0]
		path := filepath.Join(opt.replays, opt.prop, "undecided_"+mangle(name)+".json")
		b, _ := json.MarshalIndent(map[string]any{"obligation": name + ":encoding", "problem": "UNDECIDED: " + u}, "", " ")
		_ = os.WriteFile(path, b, 0644)
		lines = append(lines, fmt.Sprintf("VIOLATION property=%s replay=%s no-failing-input-found", opt.prop, path))
	}
	if len(samples) == 0 && len(recs) > 0 {
		samples = append(samples, recs[0])
	}
	if nObl == 0 && violations == 0 {
		violations++
		lines = append(lines, fmt.Sprintf("VIOLATION property=%s replay=%s no-failing-input-found", opt.prop, "none(zero obligations generated: vacuous check)"))
	}

	sort.Strings(lines)
	for _, l := range lines {
		fmt.Println(l)
	}
	var fnList []string
	for _, r := range results {
		fnList = append(fnList, r.Name)
	}
	assumptions := []string{
		"int is a mathematical integer (machine arithmetic treated as mathematical; no overflow obligations)",
		"Go strings are byte sequences modelled as SMT strings",
		"go/packages + go/ssa (x/tools v0.29.0) build SSA that is semantically the code the compiler builds",
		"closed world for interface implementations declared in /repo",
		"partial correctness: termination is not proved",
	}
	for _, a := range sortedKeys(w.assumptions) {
		assumptions = append(assumptions, a)
	}
	for _, a := range sortedKeys(w.libUsed) {
		assumptions = append(assumptions, "assumed library contract: "+a)
	}
	for _, a := range sortedKeys(w.uncontracted) {
		assumptions = append(assumptions, "called without contract (result unconstrained, heap havocked): "+a)
	}
	for _, a := range sortedKeys(w.axiomsUsed) {
		assumptions = append(assumptions, "library axiom (instantiated explicitly) "+a)
	}
	assumptions = append(assumptions, carveNotes...)
	ev := map[string]any{
		"property_id": opt.prop,
		"tier":        opt.tier,
		"seed":        seed,
		"level":       "proof",
		"coverage": map[string]any{
			"obligations":              nObl,
			"discharged":               discharged,
			"checker_cmd":              fmt.Sprintf("/verif/bin/govc verify -repo %s -property %s -tier %s", opt.repo, opt.prop, opt.tier),
			"trusted_base":             []string{"go/packages+go/ssa front end", "govc VC generator (/verif/engine)", "z3 5.1.0 / cvc5 1.0.3 / z3 4.8.12", "library contracts in /verif/lib/*.spec"},
			"functions_under_contract": fnList,
			"obligation_list":          recs,
			"samples":                  samples,
			"vacuity_checks":           vacuityChecks,
			"solver_time_s":            float64(solverMs) / 1000.0,
			"load_s":                   opt.loadS,
			"spec_unfolding_depth":     depth,
			"per_obligation_timeout_s": secs,
			"undecided":                undecided,
			"missing_targets":          missing,
			"explanation":              "every obligation is a weakest-precondition style verification condition generated from the SSA of the real function in /repo's working tree, discharged by an SMT solver (unsat of the negated goal)",
		},
		"assumptions": assumptions,
		"wall_s":      time.Since(t0).Seconds() + opt.loadS,
		"violations":  violations,
	}
	if extra := propertyNotes[opt.prop]; extra != nil {
		ev["coverage"].(map[string]any)["not_covered"] = extra
	}
	if opt.evidence != "" {
		_ = os.MkdirAll(filepath.Dir(opt.evidence), 0755)
		b, _ := json.MarshalIndent(ev, "", " ")
		if err := os.WriteFile(opt.evidence, b, 0644); err != nil {
			fmt.Fprintln(os.Stderr, "govc:", err)
			return 2
		}
	}
	fmt.Printf("property %s tier %s: %d functions, %d obligations, %d discharged, %d violations, solver %.1fs, wall %.1fs\n",
		opt.prop, opt.tier, len(results), nObl, discharged, violations, float64(solverMs)/1000.0, time.Since(t0).Seconds()+opt.loadS)
	if violations > 0 {
		return 1
	}
	return 0
}

var propertyNotes = map[string][]string{}

func sweepSkip(f *ssa.Function) bool {
	return strings.HasSuffix(f.Name(), "init") || strings.Contains(f.String(), "/tests")
}

// regionHyp translates a known-finding region over the function's parameters (entry state).
func regionHyp(w *World, o *Obligation, region string) (t *Term, err error) {
	e, perr := parseSpecExpr(region)
	if perr != nil {
		return nil, perr
	}
	enc := o.enc
	env := &Env{w: w, vars: map[string]TV{}, state: enc.newState(), scope: &Scope{}, where: "known-finding region"}
	if enc.fc != nil {
		env.scope = enc.fc.Scope
	}
	for _, in := range enc.inputs {
		env.vars[in.Name] = TV{in.T, in.Ty}
	}
	defer func() {
		if r := recover(); r != nil {
			if se, ok := r.(specErr); ok {
				err = fmt.Errorf("%s", se.msg)
				return
			}
			panic(r)
		}
	}()
	before := len(enc.items)
	t = env.trBool(e)
	if len(enc.items) != before {
		// the region touched heap variables not yet declared at obligation time: make them visible
		o.NItems = len(enc.items)
	}
	return t, nil
}

func writeReplay(opt verifyOpts, o *Obligation, problem, replayNote string) string {
	path := filepath.Join(opt.replays, opt.prop, mangle(o.Name)+".json")
	model := o.Model
	if len(model) > 20000 {
		model = model[:20000]
	}
	script := ""
	if o.Script != "" {
		if b, err := os.ReadFile(o.Script); err == nil && len(b) < 600000 {
			script = string(b)
		}
	}
	if o.Goal != nil && o.enc != nil {
		o.Goal.walk(func(x *Term) {
			if why, ok := o.enc.w.unresolved[x.Op]; ok && problem == "" {
				problem = "the clause cannot be evaluated at this point of the code (" + why + "): it names something the code no longer has here, so it is not established"
			}
		})
	}
	rec := map[string]any{
		"property":      opt.prop,
		"obligation":    o.Name,
		"kind":          o.Kind,
		"where":         o.Where,
		"clause":        o.Clause,
		"solver":        o.Solver,
		"solver_result": o.Result,
		"solver_output": model,
		"replay":        replayNote,
		"problem":       problem,
		"smt_script":    script,
	}
	b, _ := json.MarshalIndent(rec, "", " ")
	_ = os.WriteFile(path, b, 0644)
	return path
}

// tryReplay is filled in by replay.go for functions with plain-data inputs.
var tryReplay = func(w *World, opt verifyOpts, o *Obligation) (string, bool) { return "", false }

// checkGlobalsConstant: a package variable with a declared fact must only be assigned by its initialiser.
func checkGlobalsConstant(P *Program) []string {
	var out []string
	for _, k := range sortedKeys(P.Funcs) {
		f := P.Funcs[k]
		if f.Blocks == nil || f.Pkg == nil || !strings.HasPrefix(f.Pkg.Pkg.Path(), repoMod) || f.Name() == "init" {
			continue
		}
		for _, b := range f.Blocks {
			for _, ins := range b.Instrs {
				var g *ssa.Global
				switch x := ins.(type) {
				case *ssa.MapUpdate:
					if ld, ok := x.Map.(*ssa.UnOp); ok {
						g, _ = ld.X.(*ssa.Global)
					}
				}
				if g == nil || g.Pkg == nil {
					continue
				}
				key := g.Pkg.Pkg.Path() + "." + g.Name()
				if gf, ok := P.Globals[key]; ok && !gf.Lib {
					out = append(out, fmt.Sprintf("package variable %s is declared constant (global fact) but is assigned in %s", key, shortTypeName(k)))
				}
			}
		}
	}
	return out
}
