package main

import (
	"fmt"
	"go/types"
	"strings"

	"golang.org/x/tools/go/ssa"
)

type FuncResult struct {
	Name        string
	Contract    *FuncContract
	Obls        []*Obligation
	Unsupported string
	Enc         *Enc
}

// verifyFunction generates all obligations of one function.
func (w *World) verifyFunction(fn *ssa.Function, fc *FuncContract) (res *FuncResult) {
	name := shortTypeName(fn.String())
	enc := &Enc{w: w, fn: fn, fc: fc, name: name, heap0: map[string]*Term{}, nobl: map[string]int{}}
	res = &FuncResult{Name: name, Contract: fc, Enc: enc}
	defer func() {
		if r := recover(); r != nil {
			switch e := r.(type) {
			case unsupportedErr:
				res.Unsupported = e.msg
			case specErr:
				res.Unsupported = "contract error: " + e.msg
			default:
				panic(r)
			}
		}
		res.Obls = enc.obls
	}()
	for _, b := range fn.Blocks {
		for _, ins := range b.Instrs {
			switch ins.(type) {
			case *ssa.Go, *ssa.Select:
				enc.unsup("%T outside the modelled subset", ins)
			}
		}
	}
	fr := enc.newFrame(fn, fc, nil)
	st := enc.newState()
	// parameters
	var names []string
	if fc != nil {
		names = fc.Params
		if len(names) != len(fn.Params) {
			enc.unsup("contract names %d parameters, function has %d", len(names), len(fn.Params))
		}
	}
	for i, p := range fn.Params {
		so := w.sortOf(p.Type())
		c := enc.declare("p_"+p.Name(), so)
		fr.vals[p] = c
		fr.assumeWF(c, p.Type(), st, 2)
		n := p.Name()
		if names != nil {
			n = names[i]
		}
		fr.paramTV[n] = TV{c, p.Type()}
		enc.inputs = append(enc.inputs, inputVar{Name: n, T: c, Sort: so, Ty: p.Type()})
		if pt, ok := p.Type().Underlying().(*types.Pointer); ok {
			if fc == nil || !fc.Nilable[n] {
				enc.assume(Not(Eq(c, IntLit(0))), "default precondition: "+n+" != nil")
			}
			// the reference-typed fields of the pointed-to struct are allocated references too
			if _, isStruct := pt.Elem().Underlying().(*types.Struct); isStruct && !isBuilderType(pt.Elem()) {
				s := w.structSort(pt.Elem())
				e0 := &Env{w: w, vars: map[string]TV{}, state: st}
				for i, f := range s.Fields {
					switch f.Type.Underlying().(type) {
					case *types.Pointer, *types.Slice, *types.Map, *types.Struct:
						fr.assumeWF(e0.loadField(st, s, i, c), f.Type, st, 1)
					}
				}
			}
		}
	}
	var fvCells []*ssa.FreeVar
	for _, fv := range fn.FreeVars {
		so := w.sortOf(fv.Type())
		c := enc.declare("fv_"+fv.Name(), so)
		fr.bindings[fv] = c
		fr.assumeWF(c, fv.Type(), st, 1)
		if _, ok := fv.Type().Underlying().(*types.Pointer); ok {
			enc.assume(Not(Eq(c, IntLit(0))), "captured cell is non-nil")
		}
		fr.paramTV[fv.Name()] = TV{c, fv.Type()}
		fvCells = append(fvCells, fv)
	}
	entry := st.clone()
	pre := &Env{w: w, vars: map[string]TV{}, state: entry, old: entry, scope: fr.scopeOf()}
	for n, tv := range fr.paramTV {
		pre.vars[n] = tv
	}
	if fc != nil {
		for _, rq := range fc.Requires {
			pre.where = rq.Where()
			enc.assume(fr.safeTr(pre, rq), "requires "+rq.Where())
		}
	}
	if fc != nil && len(fc.Captured) > 0 {
		// captured variables are cells: bind each name to the value held at entry
		cenv := &Env{w: w, vars: map[string]TV{}, state: entry, old: entry, scope: fr.scopeOf()}
		for _, fv := range fvCells {
			if pt, ok := fv.Type().Underlying().(*types.Pointer); ok {
				cenv.vars[fv.Name()] = TV{cenv.loadPtr(entry, fr.bindings[fv], pt.Elem()), pt.Elem()}
			}
		}
		for _, cp := range fc.Captured {
			cenv.where = cp.Where()
			func() {
				defer func() {
					if r := recover(); r != nil {
						if ue, ok := r.(unsupportedErr); ok && strings.Contains(ue.msg, "unknown identifier") {
							return // this literal does not capture the variable
						}
						panic(r)
					}
				}()
				enc.assume(fr.safeTr(cenv, cp), "ASSUMED about captured variables "+cp.Where())
				w.assumptions["ASSUMED (not checked at call sites) about the variables captured by function literals behaving as "+fc.Key+": "+cp.Text] = true
			}()
		}
	}
	if fc != nil {
		for _, u := range fc.Uses {
			pre.where = u.Where()
			enc.assume(fr.safeTr(pre, u), "axiom instance "+u.Text)
		}
		for _, sp := range fc.Splits {
			pre.where = sp.Where()
			enc.splits = append(enc.splits, fr.safeTr(pre, sp))
		}
	}
	if fc != nil && fc.Iterates != nil {
		enc.assume(Eq(entry.Get("$it.next", "Int"), IntLit(0)), "iterator protocol: nothing visited yet")
		enc.assume(Not(entry.Get("$it.stopped", "Bool")), "iterator protocol: not stopped")
		st.Set("$it.next", entry.Get("$it.next", "Int"))
		st.Set("$it.stopped", entry.Get("$it.stopped", "Bool"))
	}
	// ghost logs have a non-negative length
	for _, g := range []string{"$fsw.n", "$out.n", "$warn.n", "$pf.n"} {
		enc.assume(Le(IntLit(0), entry.Get(g, "Int")), "ghost log length is non-negative")
	}
	// global facts (constant package variables)
	fr.assumeGlobals(entry)
	if fn.Name() == "init" && fn.Pkg != nil {
		// the initialiser runs once: its guard is still false
		gname := "G." + fn.Pkg.Pkg.Path() + ".init$guard"
		enc.assume(Not(entry.Get(gname, "Bool")), "package initialiser runs once")
	}

	fr.run(tTrue, st)

	if len(fr.exits) == 0 {
		return
	}
	pcs := make([]*Term, len(fr.exits))
	states := make([]*State, len(fr.exits))
	for i, ex := range fr.exits {
		pcs[i], states[i] = ex.pc, ex.state
	}
	final := enc.mergeStates(states, pcs)
	anyRet := enc.define("pc_return", "Bool", Or(pcs...))
	nres := fn.Signature.Results().Len()
	results := make([]*Term, nres)
	for r := 0; r < nres; r++ {
		t := fr.exits[len(fr.exits)-1].results[r]
		for i := len(fr.exits) - 2; i >= 0; i-- {
			t = Ite(pcs[i], fr.exits[i].results[r], t)
		}
		results[r] = enc.define("result", w.sortOf(fn.Signature.Results().At(r).Type()), t)
	}
	// vacuity canary: "false" at return must not be provable
	can := enc.oblige("vacuity", fn.Name(), "some return is reachable under the assumptions (must NOT be refutable)", nil, tTrue, Not(anyRet))
	can.MustFail = true

	// a function that assigns a package variable carrying a declared fact (the initialiser above all)
	// re-establishes the fact
	stored := storedGlobals(fn)
	if fn.Pkg != nil {
		for _, k := range sortedKeys(w.P.Globals) {
			g := w.P.Globals[k]
			if g.Lib || !stored[k] {
				continue
			}
			env := &Env{w: w, vars: map[string]TV{}, state: final, old: entry, scope: g.Scope, where: "global " + k}
			cl := &Clause{Kind: "global", Text: g.Text, Expr: g.Expr, File: "global " + k}
			t := fr.safeTr(env, cl)
			enc.oblige("global", fn.Name(), "global invariant "+k+": "+g.Text, nil, anyRet, t)
		}
	}
	if fc == nil {
		return
	}
	post := &Env{w: w, vars: map[string]TV{}, state: final, old: entry, scope: fc.Scope}
	for n, tv := range fr.paramTV {
		post.vars[n] = tv
	}
	for i, rn := range fc.Results {
		if i < nres {
			post.vars[rn] = TV{results[i], fn.Signature.Results().At(i).Type()}
		}
	}
	for i, en := range fc.Ensures {
		if fc.SplitExits && len(fr.exits) > 1 {
			for xi, ex := range fr.exits {
				px := &Env{w: w, vars: map[string]TV{}, state: ex.state, old: entry, scope: fc.Scope, where: en.Where()}
				for n, tv := range fr.paramTV {
					px.vars[n] = tv
				}
				for ri, rn := range fc.Results {
					if ri < nres {
						px.vars[rn] = TV{ex.results[ri], fn.Signature.Results().At(ri).Type()}
					}
				}
				t := fr.safeTr(px, en)
				enc.oblige(fmt.Sprintf("ensures%d@return%d", i+1, xi+1), en.Where(), en.Text, en.Tags, ex.pc, t)
			}
			continue
		}
		post.where = en.Where()
		t := fr.safeTr(post, en)
		enc.oblige(fmt.Sprintf("ensures%d", i+1), en.Where(), en.Text, en.Tags, anyRet, t)
	}
	// internal checks: may mention local variables of the function
	post.resolve = func(name string) (TV, bool) { return fr.resolveName(name, nil) }
	for i, en := range fc.Checks {
		post.where = en.Where()
		t := fr.safeTr(post, en)
		enc.oblige(fmt.Sprintf("ensures_check%d", i+1), en.Where(), en.Text, en.Tags, anyRet, t)
	}
	if fc.Iterates != nil {
		// protocol: on return every element has been offered, or the callback stopped the iteration
		ienv := fr.iterEnv(fc, paramTerms(fr, fn), paramTypes(fn), entry, nil)
		cnt := fr.trIterExpr(ienv, nil, func() TV { return ienv.tr(fc.Iterates.Count) }).T
		enc.oblige("iterator:protocol", fn.Name(), "on return the callback stopped the iteration or every element was offered: "+fc.Iterates.Text, nil, anyRet,
			Or(final.Get("$it.stopped", "Bool"), Le(cnt, final.Get("$it.next", "Int"))))
		return // the callback may write anything: no frame obligations for the iterator itself
	}
	fr.frameObligations(fc, pre, entry, final, anyRet)
	return
}

func paramTerms(fr *Frame, fn *ssa.Function) []*Term {
	var out []*Term
	for _, p := range fn.Params {
		out = append(out, fr.vals[p])
	}
	return out
}

func paramTypes(fn *ssa.Function) []types.Type {
	var out []types.Type
	for _, p := range fn.Params {
		out = append(out, p.Type())
	}
	return out
}

// assumeGlobals adds the declared facts about constant package-level variables.
func (fr *Frame) assumeGlobals(st *State) {
	enc := fr.enc
	w := enc.w
	for _, k := range sortedKeys(w.P.Globals) {
		g := w.P.Globals[k]
		if fr.fn.Name() == "init" && fr.fn.Pkg != nil && strings.HasPrefix(k, fr.fn.Pkg.Pkg.Path()+".") && !g.Lib {
			continue // the initialiser establishes these facts, it cannot assume them
		}
		env := &Env{w: w, vars: map[string]TV{}, state: st, old: st, scope: g.Scope, where: "global " + k}
		func() {
			defer func() {
				if r := recover(); r != nil {
					if se, ok := r.(specErr); ok {
						panic(unsupportedErr{"contract error: " + se.msg})
					}
					panic(r)
				}
			}()
			enc.assume(env.trBool(g.Expr), "constant global "+k)
		}()
	}
}

// frameObligations checks the assigns / effects clauses of the function itself.
func (fr *Frame) frameObligations(fc *FuncContract, pre *Env, entry, final *State, pc *Term) {
	enc := fr.enc
	w := enc.w
	if final.epoch != entry.epoch && !fc.AssignsAny {
		// some callee without a frame was called: nothing can be proved about the frame
		enc.oblige("frame", fc.File, "assigns clause (a callee without contract was called: frame undecidable)", nil, pc, tFalse)
		anyFx := false
		for _, fx := range fc.Effects {
			if fx == "any" {
				anyFx = true
			}
		}
		if !anyFx {
			// ... and so are its effects on the outside world
			enc.oblige("effects:unknown", fc.File, "effects clause (a callee without contract was called: its effects are unknown)", nil, pc, tFalse)
		}
		return
	}
	allowed := map[string][]*Term{} // heap var -> refs that may change
	wholeOK := map[string]bool{}
	for _, a := range fc.Assigns {
		pre.where = a.Where()
		func() {
			defer func() {
				if r := recover(); r != nil {
					if se, ok := r.(specErr); ok {
						panic(unsupportedErr{"contract error: " + se.msg})
					}
					panic(r)
				}
			}()
			for _, t := range fr.assignTargets(a.Expr, pre) {
				if t.whole {
					wholeOK[t.name] = true
				} else {
					allowed[t.name] = append(allowed[t.name], t.ref)
				}
			}
		}()
	}
	fxOK := map[string]bool{}
	for _, fx := range fc.Effects {
		fxOK["$fx."+fx] = true
		if fx == "any" {
			for _, c := range effectClasses {
				fxOK["$fx."+c] = true
				for _, g := range effectGhosts[c] {
					wholeOK[g] = true
				}
			}
		}
		for _, g := range effectGhosts[fx] {
			wholeOK[g] = true
		}
	}
	cnt0 := entry.Get("$cnt", "Int")
	for _, name := range sortedKeys(final.m) {
		if name == "$cnt" || wholeOK[name] || strings.HasPrefix(name, "$vis.") {
			continue // $vis.*: ghost visited sets of this function's own range loops
		}
		if fc.AssignsAny && !strings.HasPrefix(name, "$") {
			continue
		}
		so := w.heapSorts[name]
		init := entry.Get(name, so)
		fin := final.m[name]
		if init == fin {
			continue
		}
		if strings.HasPrefix(name, "$fx.") {
			if fxOK[name] {
				continue
			}
			enc.oblige("effects:"+strings.TrimPrefix(name, "$fx."), fc.File, "no effect of class "+strings.TrimPrefix(name, "$fx.")+" (effects clause)", nil, pc, Eq(fin, init))
			continue
		}
		if !strings.HasPrefix(so, "(Array Int ") {
			enc.oblige("frame", fc.File, "assigns clause: "+name+" unchanged", nil, pc, Eq(fin, init))
			continue
		}
		// skolemised: an arbitrary reference that existed at entry and is not listed keeps its value
		q := enc.declare("fr_ref", "Int")
		cond := []*Term{Le(IntLit(1), q), Lt(q, cnt0)}
		for _, r := range allowed[name] {
			cond = append(cond, Not(Eq(q, r)))
		}
		goal := Implies(And(cond...), Eq(Select(fin, q), Select(init, q)))
		enc.oblige("frame", fc.File, "assigns clause: "+name+" changes only where declared", nil, pc, goal)
	}
}

// storedGlobals lists the package variables a function assigns directly.
func storedGlobals(fn *ssa.Function) map[string]bool {
	out := map[string]bool{}
	for _, b := range fn.Blocks {
		for _, ins := range b.Instrs {
			if st, ok := ins.(*ssa.Store); ok {
				if g, ok := st.Addr.(*ssa.Global); ok && g.Pkg != nil {
					out[g.Pkg.Pkg.Path()+"."+g.Name()] = true
				}
			}
		}
	}
	return out
}
