package main

import (
	"fmt"
	"go/types"
	"strings"

	"golang.org/x/tools/go/ssa"
)

// iterEnv builds the environment in which an iterator's count / elem expressions are evaluated.
func (fr *Frame) iterEnv(fc *FuncContract, args []*Term, argTypes []types.Type, st *State, idx *Term) *Env {
	env := &Env{w: fr.enc.w, vars: map[string]TV{}, state: st, scope: fc.Scope, where: fc.File}
	for i, p := range fc.Params {
		if i < len(args) {
			env.vars[p] = TV{args[i], argTypes[i]}
		}
	}
	if idx != nil {
		env.vars["ghost_i"] = TV{idx, tyInt}
	}
	return env
}

func (fr *Frame) trIterExpr(env *Env, x interface{ Pos() }, f func() TV) (tv TV) {
	defer func() {
		if r := recover(); r != nil {
			if se, ok := r.(specErr); ok {
				panic(unsupportedErr{"contract error: " + se.msg})
			}
			panic(r)
		}
	}()
	return f()
}

// expandIterator turns a call of an iterator function with a known function literal into a synthetic
// loop over the callback's invocations (invariant from the caller's "iter" clauses).
func (fr *Frame) expandIterator(fc *FuncContract, key string, ci ssa.CallInstruction, c *ssa.CallCommon, cbIdx int, cr *closureRef) {
	enc := fr.enc
	pc := fr.curPC
	where := fr.where(ci)
	short := shortTypeName(key)
	var args []*Term
	var argTypes []types.Type
	for _, a := range c.Args {
		if _, isLV := fr.lvals[a]; isLV {
			enc.unsup("iterator argument is an interior pointer")
		}
		args = append(args, fr.val(a))
		argTypes = append(argTypes, a.Type())
	}
	// preconditions of the iterator
	pre := fr.iterEnv(fc, args, argTypes, fr.cur, nil)
	for _, rq := range fc.Requires {
		pre.where = rq.Where()
		enc.oblige("call:requires", where, short+" requires "+rq.Text, rq.Tags, pc, fr.safeTr(pre, rq))
	}
	count := fr.trIterExpr(pre, nil, func() TV { return pre.tr(fc.Iterates.Count) }).T
	n := enc.define("it_n", "Int", count)
	// invariants
	var invs []*Clause
	if fr.fc != nil {
		for suffix, cl := range fr.fc.IterInv {
			if strings.HasSuffix(key, suffix) {
				invs = append(invs, cl...)
			}
		}
	}
	entry := fr.cur.clone()
	trInv := func(inv *Clause, st *State, k, done *Term) *Term {
		env := fr.env(st)
		env.entry = entry
		env.where = inv.Where()
		env.vars["ghost_k"] = TV{k, tyInt}
		env.vars["ghost_done"] = TV{done, tyBool}
		env.vars["ghost_n"] = TV{n, tyInt}
		env.resolve = func(name string) (TV, bool) { return fr.resolveNameAt(name, nil, ci) }
		fr.resolveState = st
		defer func() { fr.resolveState = nil }()
		return fr.safeTr(env, inv)
	}
	for i, inv := range invs {
		enc.oblige(fmt.Sprintf("iter:%s:inv%d:entry", lastName(key), i+1), inv.Where(), inv.Text, inv.Tags, pc, trInv(inv, fr.cur, IntLit(0), tFalse))
	}
	// havoc what the callback may write
	fn := cr.mc.Fn.(*ssa.Function)
	bind := map[*ssa.FreeVar]ssa.Value{}
	for i, fv := range fn.FreeVars {
		bind[fv] = cr.mc.Bindings[i]
	}
	ms := newModSet()
	fr.modifiedIn(fn, nil, ms, bind, 0)
	st := fr.cur
	fr.applyHavoc(ms, st, entry, func(r ssa.Value) int {
		if ins, ok := r.(ssa.Instruction); ok && ins.Parent() == fn {
			switch r.(type) {
			case *ssa.Alloc, *ssa.MakeSlice:
				return 1
			}
			return 2
		}
		if _, ok := r.(*ssa.Parameter); ok && r.Parent() == fn {
			return 2
		}
		return 0
	}, "the callback passed to "+short+" at "+where)
	k := enc.declare("it_k", "Int")
	done := enc.declare("it_done", "Bool")
	enc.assume(And(Le(IntLit(0), k), Le(k, n)), "iterator: completed invocations")
	enc.assume(Implies(Eq(k, IntLit(0)), Not(done)), "iterator: nothing stopped before the first invocation")
	for _, inv := range invs {
		enc.assume(Implies(pc, trInv(inv, st, k, done)), "iterator invariant "+inv.Where())
	}
	head := st.clone()
	// one more invocation (its assumptions are scoped: irrelevant once the expansion is finished)
	savedScope := enc.curScope
	enc.nScopes++
	myScope := enc.nScopes
	if savedScope == 0 {
		enc.curScope = myScope
	}
	if fc.Iterates.NoStop {
		enc.assume(Not(done), "iterator ignores the callback's result")
	}
	bodyPC := enc.define("pc_it", "Bool", And(pc, Lt(k, n), Not(done)))
	fr.cur, fr.curPC = st.clone(), bodyPC
	elEnv := fr.iterEnv(fc, args, argTypes, fr.cur, k)
	elem := fr.trIterExpr(elEnv, nil, func() TV { return elEnv.tr(fc.Iterates.Elem) })
	elemT := enc.define("it_elem", enc.w.sortOf(elem.Ty), elem.T)
	// filtered iterators call back only for the indices satisfying "when"
	when := tTrue
	if fc.Iterates.When != nil {
		when = fr.trIterExpr(elEnv, nil, func() TV { return TV{elEnv.trBool(fc.Iterates.When), tyBool} }).T
		when = enc.define("it_when", "Bool", when)
	}
	skipState := fr.cur.clone()
	fr.curPC = enc.define("pc_it_cb", "Bool", And(bodyPC, when))
	fr.itK = k
	res := fr.inlineT(fn, cr.mc, cr.fr, []*Term{elemT}, nil)
	fr.itK = nil
	after, afterPC := fr.cur, fr.curPC
	doneAfter := tFalse
	if len(res) > 0 {
		doneAfter = res[0]
	}
	if fc.Iterates.When != nil {
		skipPC := enc.define("pc_it_skip", "Bool", And(bodyPC, Not(when)))
		after = enc.mergeStates([]*State{after, skipState}, []*Term{afterPC, skipPC})
		doneAfter = enc.define("it_done_after", "Bool", Ite(afterPC, doneAfter, tFalse))
		afterPC = enc.define("pc_it_after", "Bool", Or(afterPC, skipPC))
	}
	// an iterator that delegates to another iterator: its own progress is the inner index
	top := fr
	for top.parent != nil {
		top = top.parent
	}
	if top.fc != nil && top.fc.Iterates != nil {
		after.Set("$it.next", enc.define("it_next", "Int", Add(k, IntLit(1))))
	}
	if fc.Iterates.NoStop {
		doneAfter = tFalse
	}
	for i, inv := range invs {
		enc.oblige(fmt.Sprintf("iter:%s:inv%d:preserved", lastName(key), i+1), inv.Where(), inv.Text, inv.Tags, afterPC,
			trInv(inv, after, Add(k, IntLit(1)), doneAfter))
	}
	// after the iteration: stopped or exhausted
	if savedScope == 0 {
		enc.curScope = 0
		if enc.closed == nil {
			enc.closed = map[int]bool{}
		}
		enc.closed[myScope] = true
	}
	fr.cur, fr.curPC = head, pc
	enc.assume(Implies(pc, Or(done, Le(n, k))), "iterator finished: stopped or every element visited")
	enc.w.assumptions["call of "+short+" expanded into a loop over its callback (iterator contract: "+fc.Iterates.Text+")"] = true
}

func lastName(key string) string {
	if i := strings.LastIndex(key, "."); i >= 0 {
		return key[i+1:]
	}
	return key
}

// originParam follows a function value back to a parameter of an enclosing activation: the value
// itself, or a load from a captured cell that the defining frame filled from its parameter.
func (fr *Frame) originParam(v ssa.Value) (*ssa.Parameter, *Frame) {
	switch x := v.(type) {
	case *ssa.Parameter:
		return x, fr
	case *ssa.UnOp:
		if fv, ok := x.X.(*ssa.FreeVar); ok && fr.defFrame != nil && fr.defClosure != nil {
			for i, f := range fr.fn.FreeVars {
				if f != fv {
					continue
				}
				al, ok := fr.defClosure.Bindings[i].(*ssa.Alloc)
				if !ok {
					return nil, nil
				}
				var src ssa.Value
				n := 0
				for _, ref := range *al.Referrers() {
					if st, ok := ref.(*ssa.Store); ok && st.Addr == al {
						src = st.Val
						n++
					}
				}
				if n == 1 {
					return fr.defFrame.originParam(src)
				}
			}
		}
		if al, ok := x.X.(*ssa.Alloc); ok {
			var src ssa.Value
			n := 0
			for _, ref := range *al.Referrers() {
				if st, ok := ref.(*ssa.Store); ok && st.Addr == al {
					src = st.Val
					n++
				}
			}
			if n == 1 {
				return fr.originParam(src)
			}
		}
	}
	return nil, nil
}

// protocolCall handles a call of the callback parameter inside an iterator function under
// verification: it must receive elem[$next] and may only happen while not stopped.
func (fr *Frame) protocolCall(top *Frame, ci ssa.CallInstruction, c *ssa.CallCommon, resTypes []types.Type) []*Term {
	enc := fr.enc
	fc := top.fc
	st := fr.cur
	next := st.Get("$it.next", "Int")
	stopped := st.Get("$it.stopped", "Bool")
	delegated := false
	for f := fr; f != nil; f = f.parent {
		if f.itK != nil {
			next = f.itK
			delegated = true
			break
		}
	}
	var args []*Term
	var argTypes []types.Type
	for _, p := range top.fn.Params {
		args = append(args, top.vals[p])
		argTypes = append(argTypes, p.Type())
	}
	env := top.iterEnv(fc, args, argTypes, top.old, next)
	count := fr.trIterExpr(env, nil, func() TV { return env.tr(fc.Iterates.Count) }).T
	elem := fr.trIterExpr(env, nil, func() TV { return env.tr(fc.Iterates.Elem) })
	where := fr.where(ci)
	enc.oblige("iterator:protocol", where, "callback is invoked only while not stopped and within the element count", nil, fr.curPC, And(Not(stopped), Lt(next, count), Le(IntLit(0), next)))
	if fc.Iterates.When != nil {
		when := fr.trIterExpr(env, nil, func() TV { return TV{env.trBool(fc.Iterates.When), tyBool} }).T
		enc.oblige("iterator:protocol", where, "callback is invoked only for elements satisfying the filter", nil, fr.curPC, when)
	}
	if len(c.Args) != 1 {
		enc.unsup("iterator callback with %d arguments", len(c.Args))
	}
	got := fr.val(c.Args[0])
	want := env.coerce(elem, c.Args[0].Type())
	enc.oblige("iterator:protocol", where, "callback receives the next element: "+fc.Iterates.Text, nil, fr.curPC, Eq(got, want))
	if !delegated {
		st.Set("$it.next", enc.define("it_next", "Int", Add(next, IntLit(1))))
	}
	r := enc.declare("cb_done", "Bool")
	st.Set("$it.stopped", r)
	// the callback may do anything to the heap it can reach: havoc everything else
	nx, sp := st.Get("$it.next", "Int"), st.Get("$it.stopped", "Bool")
	before := st.clone()
	st.havocAll()
	fr.assumeGlobals(st)
	fr.keepPrivate(before, st)
	st.Set("$it.next", nx)
	st.Set("$it.stopped", sp)
	if len(resTypes) == 1 {
		return []*Term{r}
	}
	return nil
}

// privateCells lists the allocations of this activation chain whose address never leaves it (only
// loads, stores, field accesses and captures by function literals of the same function).
func (fr *Frame) privateCells() []*ssa.Alloc {
	var out []*ssa.Alloc
	for f := fr; f != nil; f = f.parent {
		for _, b := range f.fn.Blocks {
			for _, ins := range b.Instrs {
				a, ok := ins.(*ssa.Alloc)
				if !ok {
					continue
				}
				if _, known := f.vals[a]; !known {
					continue
				}
				private := true
				for _, ref := range *a.Referrers() {
					switch r := ref.(type) {
					case *ssa.Store:
						if r.Val == a {
							private = false
						}
					case *ssa.UnOp, *ssa.FieldAddr, *ssa.DebugRef:
					case *ssa.MakeClosure:
						// captured by a literal of the same function: still private if that literal's uses
						// of the variable are loads and stores only (checked when it is inlined)
					default:
						private = false
					}
				}
				if private {
					out = append(out, a)
				}
			}
		}
	}
	return out
}

// keepPrivate re-asserts the contents of private cells after a havoc of everything.
func (fr *Frame) keepPrivate(before, after *State) {
	enc := fr.enc
	w := enc.w
	for f := fr; f != nil; f = f.parent {
		for _, a := range f.privateCellsOf() {
			ref := f.vals[a]
			el := a.Type().(*types.Pointer).Elem()
			if isBuilderType(el) {
				enc.assume(Eq(Select(after.Get("Bld", arraySort("Int", "String")), ref), Select(before.Get("Bld", arraySort("Int", "String")), ref)), "private builder unchanged by foreign code")
				continue
			}
			if _, isArr := el.Underlying().(*types.Array); isArr {
				continue
			}
			if _, isStruct := el.Underlying().(*types.Struct); isStruct {
				s := w.structSort(el)
				for i, fld := range s.Fields {
					name := heapFieldName(s, i)
					so := arraySort("Int", fld.Sort)
					enc.assume(Eq(Select(after.Get(name, so), ref), Select(before.Get(name, so), ref)), "private variable unchanged by foreign code")
				}
				continue
			}
			so := w.sortOf(el)
			name := heapBoxName(so)
			enc.assume(Eq(Select(after.Get(name, arraySort("Int", so)), ref), Select(before.Get(name, arraySort("Int", so)), ref)), "private variable unchanged by foreign code")
		}
	}
}

func (fr *Frame) privateCellsOf() []*ssa.Alloc {
	saved := fr.parent
	fr.parent = nil
	out := fr.privateCells()
	fr.parent = saved
	return out
}
