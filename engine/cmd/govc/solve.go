package main

import (
	"bytes"
	"context"
	"fmt"
	"os"
	"os/exec"
	"path/filepath"
	"strings"
	"sync"
	"time"
)

type solverSpec struct {
	name string
	args func(file string, secs int) []string
}

var solvers = []solverSpec{
	{"z3-new", func(f string, s int) []string { return []string{"z3-new", fmt.Sprintf("-T:%d", s), f} }},
	{"cvc5", func(f string, s int) []string {
		return []string{"cvc5", "--strings-exp", fmt.Sprintf("--tlimit=%d", s*1000), f}
	}},
	{"z3", func(f string, s int) []string { return []string{"z3", fmt.Sprintf("-T:%d", s), f} }},
}

type solveOut struct {
	result string
	solver string
	ms     int64
	output string
}

func runSolver(sp solverSpec, file string, secs int) solveOut {
	args := sp.args(file, secs)
	ctx, cancel := context.WithTimeout(context.Background(), time.Duration(secs+3)*time.Second)
	defer cancel()
	cmd := exec.CommandContext(ctx, args[0], args[1:]...)
	var out bytes.Buffer
	cmd.Stdout = &out
	cmd.Stderr = &out
	t0 := time.Now()
	_ = cmd.Run()
	ms := time.Since(t0).Milliseconds()
	text := out.String()
	first := strings.TrimSpace(strings.SplitN(text, "\n", 2)[0])
	res := "error"
	switch {
	case first == "unsat":
		res = "unsat"
	case first == "sat":
		res = "sat"
	case first == "unknown":
		res = "unknown"
	case strings.Contains(first, "timeout") || ctx.Err() != nil:
		res = "timeout"
	case strings.Contains(text, "interrupted by timeout"):
		res = "timeout"
	}
	return solveOut{result: res, solver: sp.name, ms: ms, output: text}
}

// solveScript tries the solvers in turn until one gives a definite answer.
func solveScript(file string, secs int, order []int, crossCheck bool) solveOut {
	var last solveOut
	var total int64
	for _, i := range order {
		o := runSolver(solvers[i], file, secs)
		total += o.ms
		if o.result == "unsat" || o.result == "sat" {
			o.ms = total
			return o
		}
		if last.result == "" || last.result == "error" {
			last = o
		}
	}
	last.ms = total
	return last
}

type solveJob struct {
	o      *Obligation
	body   string
	carved bool
}

// solveAll discharges obligations in parallel.
func solveAll(w *World, obls []*Obligation, secs int, depth int, seed int, workDir string, thorough bool) {
	prelude := ""
	bodies := make([]string, len(obls))
	fulls := make([]string, len(obls))
	for i, o := range obls {
		func() {
			defer func() {
				if r := recover(); r != nil {
					if ue, ok := r.(unsupportedErr); ok {
						o.Result = "error"
						o.Model = ue.msg
						return
					}
					panic(r)
				}
			}()
			bodies[i] = o.buildBody(w, depth, true)
			if len(o.Hyps) > 0 {
				fulls[i] = o.buildBody(w, depth, false)
			}
		}()
	}
	prelude = scriptHeader + w.prelude()
	order := []int{0, 1, 2}
	if seed%2 == 1 {
		order = []int{0, 2, 1}
	}
	var wg sync.WaitGroup
	sem := make(chan struct{}, 16)
	for i, o := range obls {
		if o.Result == "error" {
			continue
		}
		wg.Add(1)
		go func(i int, o *Obligation) {
			defer wg.Done()
			sem <- struct{}{}
			defer func() { <-sem }()
			file := filepath.Join(workDir, fmt.Sprintf("o%04d.smt2", i))
			text := prelude + bodies[i]
			if len(text) > 4<<20 {
				o.Result = "error"
				o.Model = "script too large"
				return
			}
			_ = os.WriteFile(file, []byte(text), 0644)
			o.Script = file
			r := solveScript(file, secs, order, false)
			o.Result, o.Solver, o.Ms, o.Model = r.result, r.solver, r.ms, r.output
			if thorough && r.result == "unsat" && !o.MustFail {
				// cross-check with a second solver
				for _, j := range order {
					if solvers[j].name == r.solver {
						continue
					}
					r2 := runSolver(solvers[j], file, secs)
					o.Ms += r2.ms
					if r2.result == "sat" {
						o.Result = "sat"
						o.Solver = r.solver + " vs " + r2.solver + " DISAGREE"
						o.Model = r2.output
					} else if r2.result == "unsat" {
						o.Solver = r.solver + "+" + r2.solver
					}
					break
				}
			}
			if fulls[i] != "" {
				f2 := filepath.Join(workDir, fmt.Sprintf("o%04d_full.smt2", i))
				_ = os.WriteFile(f2, []byte(prelude+fulls[i]), 0644)
				r2 := solveScript(f2, secs, order, false)
				o.FullResult = r2.result
				o.Ms += r2.ms
			}
		}(i, o)
	}
	wg.Wait()
}
