package main

import (
	"bytes"
	"context"
	"fmt"
	"os"
	"os/exec"
	"path/filepath"
	"strings"
	"sync"
	"time"
)

type solverSpec struct {
	name string
	args func(file string, secs int) []string
}

var solvers = []solverSpec{
	{"z3-new", func(f string, s int) []string { return []string{"z3-new", fmt.Sprintf("-T:%d", s), f} }},
	{"cvc5", func(f string, s int) []string {
		return []string{"cvc5", "--strings-exp", fmt.Sprintf("--tlimit=%d", s*1000), f}
	}},
	{"z3", func(f string, s int) []string { return []string{"z3", fmt.Sprintf("-T:%d", s), f} }},
	// portfolio variants for the obligations the default configurations do not decide quickly
	{"z3-new/seed7", func(f string, s int) []string {
		return []string{"z3-new", "smt.random_seed=7", "sat.random_seed=7", fmt.Sprintf("-T:%d", s), f}
	}},
	{"z3-new/ematching", func(f string, s int) []string {
		return []string{"z3-new", "smt.mbqi=false", "smt.random_seed=3", fmt.Sprintf("-T:%d", s), f}
	}},
	{"z3/seed5", func(f string, s int) []string {
		return []string{"z3", "smt.random_seed=5", fmt.Sprintf("-T:%d", s), f}
	}},
}

type solveOut struct {
	result string
	solver string
	ms     int64
	output string
}

func runSolver(sp solverSpec, file string, secs int) solveOut {
	return runSolverCtx(context.Background(), sp, file, secs)
}

func runSolverCtx(parent context.Context, sp solverSpec, file string, secs int) solveOut {
	args := sp.args(file, secs)
	ctx, cancel := context.WithTimeout(parent, time.Duration(secs+3)*time.Second)
	defer cancel()
	cmd := exec.CommandContext(ctx, args[0], args[1:]...)
	var out bytes.Buffer
	cmd.Stdout = &out
	cmd.Stderr = &out
	t0 := time.Now()
	_ = cmd.Run()
	ms := time.Since(t0).Milliseconds()
	text := out.String()
	first := ""
	for _, ln := range strings.Split(text, "\n") {
		ln = strings.TrimSpace(ln)
		if ln == "" || strings.HasPrefix(ln, "WARNING") {
			continue
		}
		first = ln
		break
	}
	res := "error"
	switch {
	case first == "unsat":
		res = "unsat"
	case first == "sat":
		res = "sat"
	case first == "unknown":
		res = "unknown"
	case strings.Contains(first, "timeout") || ctx.Err() != nil:
		res = "timeout"
	case strings.Contains(text, "interrupted by timeout"):
		res = "timeout"
	}
	return solveOut{result: res, solver: sp.name, ms: ms, output: text}
}

// solveScript: with one solver in "order" it just runs it; with several it races them (first
// definite answer wins, the others are killed).
func solveScript(file string, secs int, order []int, crossCheck bool) solveOut {
	if len(order) == 1 {
		return runSolver(solvers[order[0]], file, secs)
	}
	ctx, cancel := context.WithCancel(context.Background())
	defer cancel()
	ch := make(chan solveOut, len(order))
	for _, i := range order {
		go func(i int) { ch <- runSolverCtx(ctx, solvers[i], file, secs) }(i)
	}
	var last solveOut
	t0 := time.Now()
	for range order {
		o := <-ch
		if o.result == "unsat" || o.result == "sat" {
			o.ms = time.Since(t0).Milliseconds()
			return o
		}
		if last.result == "" || last.result == "error" {
			last = o
		}
	}
	last.ms = time.Since(t0).Milliseconds()
	return last
}

var buildMu sync.Mutex

type solveJob struct {
	o      *Obligation
	body   string
	carved bool
}

// solveAll discharges obligations in parallel.
func solveAll(w *World, obls []*Obligation, secs int, depth int, seed int, workDir string, thorough bool) {
	prelude := ""
	bodies := make([]string, len(obls))
	qfBodies := make([]string, len(obls))
	coneBodies := make([]string, len(obls))
	fulls := make([][]string, len(obls))
	for i, o := range obls {
		func() {
			defer func() {
				if r := recover(); r != nil {
					if ue, ok := r.(unsupportedErr); ok {
						o.Result = "error"
						o.Model = ue.msg
						return
					}
					panic(r)
				}
			}()
			bodies[i] = o.buildBody(w, depth, -1)
			// cap the script size: unfold recursive specifications less deeply when the text explodes
			for d := depth - 1; d >= 0 && len(bodies[i]) > 1500000; d-- {
				bodies[i] = o.buildBody(w, d, -1)
				o.UnfoldDepth = d
			}
			if !o.MustFail && strings.Contains(bodies[i], "(forall ") {
				qfOnly = true
				dd := depth
				if o.UnfoldDepth >= 0 {
					dd = o.UnfoldDepth
				}
				qfBodies[i] = o.buildBody(w, dd, -1)
				qfOnly = false
				coneOnly = true
				coneBodies[i] = o.buildBody(w, dd, -1)
				coneOnly = false
				if coneBodies[i] == bodies[i] {
					coneBodies[i] = ""
				}
			}
			for j := range o.Hyps {
				fulls[i] = append(fulls[i], o.buildBody(w, depth, j))
			}
		}()
	}
	prelude = scriptHeader + w.prelude()
	order := []int{0, 1, 2}
	if seed%2 == 1 {
		order = []int{0, 2, 1}
	}
	var wg sync.WaitGroup
	sem := make(chan struct{}, 16)
	for i, o := range obls {
		if o.Result == "error" {
			continue
		}
		wg.Add(1)
		go func(i int, o *Obligation) {
			defer wg.Done()
			sem <- struct{}{}
			defer func() { <-sem }()
			secs := secs
			for _, kf := range o.Findings {
				if kf.Region == "" && secs > 12 {
					// a known finding that covers the whole obligation: it is expected not to discharge; a short
					// attempt is enough to notice that the defect has been repaired
					secs = 12
				}
			}
			file := filepath.Join(workDir, fmt.Sprintf("o%04d.smt2", i))
			text := prelude + bodies[i]
			if len(text) > 4<<20 {
				o.Result = "error"
				o.Model = "script too large"
				return
			}
			_ = os.WriteFile(file, []byte(text), 0644)
			o.Script = file
			if qfBodies[i] != "" && len(fulls[i]) == 0 {
				// quick attempt with the full context, then without the quantified assumptions (sound:
				// fewer assumptions; decides easy goals that the quantified context only slows down)
				r0 := solveScript(file, 2, order[:1], false)
				if r0.result == "unsat" || r0.result == "sat" {
					o.Result, o.Solver, o.Ms, o.Model = r0.result, r0.solver, r0.ms, r0.output
					if r0.result == "unsat" {
						return
					}
				} else {
					qf := filepath.Join(workDir, fmt.Sprintf("o%04d_qf.smt2", i))
					_ = os.WriteFile(qf, []byte(prelude+qfBodies[i]), 0644)
					r1 := solveScript(qf, 2, order[:1], false)
					if r1.result == "unsat" {
						o.Result, o.Solver, o.Ms, o.Model = "unsat", r1.solver+"(qf-subset)", r0.ms+r1.ms, r1.output
						return
					}
					if coneBodies[i] != "" {
						cf := filepath.Join(workDir, fmt.Sprintf("o%04d_cone.smt2", i))
						_ = os.WriteFile(cf, []byte(prelude+coneBodies[i]), 0644)
						r2 := solveScript(cf, 8, order, false)
						if r2.result == "unsat" {
							o.Result, o.Solver, o.Ms, o.Model = "unsat", r2.solver+"(cone-of-influence)", r0.ms+r1.ms+r2.ms, r2.output
							return
						}
					}
				}
			}
			first := secs
			if (len(o.Splits) > 0 || o.MustFail) && first > 3 {
				first = 3
			}
			// most obligations are decided by the first solver in a moment; race all of them only for
			// the ones it does not decide quickly
			r := solveScript(file, 3, order[:1], false)
			if r.result != "unsat" && r.result != "sat" && !o.MustFail {
				r2 := solveScript(file, first, []int{0, 1, 2, 3, 4, 5}, false)
				r2.ms += r.ms
				r = r2
			}
			o.Result, o.Solver, o.Ms, o.Model = r.result, r.solver, r.ms, r.output
			if r.result != "unsat" && r.result != "sat" && len(o.Splits) > 0 {
				solveSplit(w, o, prelude, depth, secs, order, workDir, i)
			}
			if thorough && r.result == "unsat" && !o.MustFail {
				// cross-check with a second solver
				for _, j := range order {
					if solvers[j].name == r.solver {
						continue
					}
					r2 := runSolver(solvers[j], file, secs)
					o.Ms += r2.ms
					if r2.result == "sat" {
						o.Result = "sat"
						o.Solver = r.solver + " vs " + r2.solver + " DISAGREE"
						o.Model = r2.output
					} else if r2.result == "unsat" {
						o.Solver = r.solver + "+" + r2.solver
					}
					break
				}
			}
			o.DropRes = make([]string, len(fulls[i]))
			for j, fb := range fulls[i] {
				f2 := filepath.Join(workDir, fmt.Sprintf("o%04d_drop%d.smt2", i, j))
				_ = os.WriteFile(f2, []byte(prelude+fb), 0644)
				dsecs := secs
				if dsecs > 10 {
					dsecs = 10
				}
				r2 := solveScript(f2, dsecs, order[:1], false)
				o.DropRes[j] = r2.result
				o.Ms += r2.ms
			}
		}(i, o)
	}
	wg.Wait()
}

// solveSplit decides an obligation by an exhaustive case split over boolean conditions of the
// function's inputs: every case must be unsat.
func solveSplit(w *World, o *Obligation, prelude string, depth, secs int, order []int, workDir string, idx int) {
	n := len(o.Splits)
	if n > 10 {
		n = 10
	}
	total := 1 << n
	results := make([]solveOut, total)
	var wg sync.WaitGroup
	sem := make(chan struct{}, 8)
	for c := 0; c < total; c++ {
		wg.Add(1)
		go func(c int) {
			defer wg.Done()
			sem <- struct{}{}
			defer func() { <-sem }()
			var hyps []*Term
			for j := 0; j < n; j++ {
				if c&(1<<j) != 0 {
					hyps = append(hyps, o.Splits[j])
				} else {
					hyps = append(hyps, Not(o.Splits[j]))
				}
			}
			buildMu.Lock()
			body := o.buildBody(w, depth, -1, hyps...)
			pre := scriptHeader + w.prelude()
			buildMu.Unlock()
			file := filepath.Join(workDir, fmt.Sprintf("o%04d_case%d.smt2", idx, c))
			_ = os.WriteFile(file, []byte(pre+body), 0644)
			results[c] = solveScript(file, secs, order, false)
		}(c)
	}
	wg.Wait()
	o.NSplit = total
	allUnsat := true
	var ms int64
	for c, r := range results {
		ms += r.ms
		if r.result == "sat" {
			o.Result, o.Solver, o.Model = "sat", r.solver, fmt.Sprintf("case %d of %d\n%s", c, total, r.output)
			o.Script = filepath.Join(workDir, fmt.Sprintf("o%04d_case%d.smt2", idx, c))
			allUnsat = false
			break
		}
		if r.result != "unsat" {
			allUnsat = false
			o.Result, o.Solver, o.Model = r.result, r.solver, fmt.Sprintf("case %d of %d undecided\n%s", c, total, r.output)
			o.Script = filepath.Join(workDir, fmt.Sprintf("o%04d_case%d.smt2", idx, c))
		}
	}
	o.Ms += ms
	if allUnsat {
		o.Result, o.Solver = "unsat", fmt.Sprintf("case-split(%d) %s", total, results[0].solver)
	}
}
