package main

import (
	"fmt"
	"sort"
	"strconv"
	"strings"
)

// Term is an SMT-LIB term (S-expression tree).  Leaves have no Args.
type Term struct {
	Op   string
	Args []*Term

	str  string // cached rendering
	info *tinfo // cached summary (for root terms)
}

// tinfo summarises a term: applications (nodes with arguments), symbols, quantifiers, dummies.
type tinfo struct {
	apps  []*Term
	syms  map[string]bool
	quant bool
	dummy []string
}

func (t *Term) summary() *tinfo {
	if t.info != nil {
		return t.info
	}
	ti := &tinfo{syms: map[string]bool{}}
	seen := map[*Term]bool{}
	var rec func(x *Term)
	rec = func(x *Term) {
		if seen[x] {
			return
		}
		seen[x] = true
		ti.syms[x.Op] = true
		if x.Op == "forall" || x.Op == "exists" {
			ti.quant = true
		}
		if len(x.Args) == 0 {
			if strings.HasPrefix(x.Op, "DUMMY_") {
				ti.dummy = append(ti.dummy, x.Op)
			}
		} else {
			ti.apps = append(ti.apps, x)
		}
		for _, a := range x.Args {
			rec(a)
		}
	}
	rec(t)
	t.info = ti
	return ti
}

// accessorOf maps a datatype accessor to (constructor, field index) so that accessor(constructor(...))
// is simplified when the term is built.
var accessorOf = map[string]struct {
	ctor string
	idx  int
}{
	"s_base": {"mk_slice", 0}, "s_off": {"mk_slice", 1}, "s_len": {"mk_slice", 2}, "s_cap": {"mk_slice", 3},
}

func A(op string, args ...*Term) *Term {
	if len(args) == 1 {
		if ac, ok := accessorOf[op]; ok && args[0].Op == ac.ctor && ac.idx < len(args[0].Args) {
			return args[0].Args[ac.idx]
		}
	}
	return &Term{Op: op, Args: args}
}
func Leaf(s string) *Term               { return &Term{Op: s} }

var (
	tTrue  = Leaf("true")
	tFalse = Leaf("false")
)

func IntLit(n int64) *Term {
	if n < 0 {
		return A("-", Leaf(strconv.FormatInt(-n, 10)))
	}
	return Leaf(strconv.FormatInt(n, 10))
}

// StrLit renders a Go string (bytes) as an SMT-LIB string literal; one SMT char per byte.
func StrLit(s string) *Term {
	var sb strings.Builder
	sb.WriteByte('"')
	for i := 0; i < len(s); i++ {
		c := s[i]
		switch {
		case c == '"':
			sb.WriteString(`""`)
		case c == '\\':
			sb.WriteString(`\u{5c}`)
		case c >= 0x20 && c < 0x7f:
			sb.WriteByte(c)
		default:
			fmt.Fprintf(&sb, `\u{%x}`, c)
		}
	}
	sb.WriteByte('"')
	return Leaf(sb.String())
}

func (t *Term) String() string {
	if t.str != "" {
		return t.str
	}
	var sb strings.Builder
	t.write(&sb)
	if len(t.Args) > 0 {
		t.str = sb.String()
		return t.str
	}
	return sb.String()
}

func (t *Term) write(sb *strings.Builder) {
	if t.str != "" {
		sb.WriteString(t.str)
		return
	}
	if len(t.Args) == 0 {
		sb.WriteString(t.Op)
		return
	}
	sb.WriteByte('(')
	sb.WriteString(t.Op)
	for i, a := range t.Args {
		if i > 0 || t.Op != "" {
			sb.WriteByte(' ')
		}
		a.write(sb)
	}
	sb.WriteByte(')')
}

func And(ts ...*Term) *Term {
	var out []*Term
	for _, t := range ts {
		if t == nil || t == tTrue || (len(t.Args) == 0 && t.Op == "true") {
			continue
		}
		if len(t.Args) == 0 && t.Op == "false" {
			return tFalse
		}
		out = append(out, t)
	}
	switch len(out) {
	case 0:
		return tTrue
	case 1:
		return out[0]
	}
	return A("and", out...)
}

func Or(ts ...*Term) *Term {
	var out []*Term
	for _, t := range ts {
		if t == nil || (len(t.Args) == 0 && t.Op == "false") {
			continue
		}
		if len(t.Args) == 0 && t.Op == "true" {
			return tTrue
		}
		out = append(out, t)
	}
	switch len(out) {
	case 0:
		return tFalse
	case 1:
		return out[0]
	}
	return A("or", out...)
}

func Not(t *Term) *Term {
	if len(t.Args) == 0 {
		if t.Op == "true" {
			return tFalse
		}
		if t.Op == "false" {
			return tTrue
		}
	}
	if t.Op == "not" && len(t.Args) == 1 {
		return t.Args[0]
	}
	return A("not", t)
}

func Implies(a, b *Term) *Term {
	if isTrue(a) {
		return b
	}
	if isTrue(b) {
		return tTrue
	}
	return A("=>", a, b)
}

func isTrue(t *Term) bool  { return len(t.Args) == 0 && t.Op == "true" }
func isFalse(t *Term) bool { return len(t.Args) == 0 && t.Op == "false" }

func Eq(a, b *Term) *Term  { return A("=", a, b) }
func Ite(c, a, b *Term) *Term {
	if isTrue(c) {
		return a
	}
	if isFalse(c) {
		return b
	}
	return A("ite", c, a, b)
}
func Select(a, i *Term) *Term {
	if a.Op == "store" && len(a.Args) == 3 && a.Args[1] == i {
		return a.Args[2]
	}
	return A("select", a, i)
}
func Store(a, i, v *Term) *Term { return A("store", a, i, v) }
func Add(a, b *Term) *Term      { return A("+", a, b) }

// Sidx is the address of element i of a slice with offset off: off + i, kept behind an uninterpreted
// symbol (axiomatised in the prelude) so that quantifier patterns over slice elements match.
func Sidx(off, i *Term) *Term { return A("sidx", off, i) }
func Sub(a, b *Term) *Term      { return A("-", a, b) }
func Le(a, b *Term) *Term       { return A("<=", a, b) }
func Lt(a, b *Term) *Term       { return A("<", a, b) }

// walk visits every node of the term tree.
func (t *Term) walk(f func(*Term)) {
	f(t)
	for _, a := range t.Args {
		a.walk(f)
	}
}

// symbols collects the leaf / operator symbols used.
func (t *Term) symbols(into map[string]bool) {
	t.walk(func(x *Term) { into[x.Op] = true })
}

func sortedKeys[V any](m map[string]V) []string {
	ks := make([]string, 0, len(m))
	for k := range m {
		ks = append(ks, k)
	}
	sort.Strings(ks)
	return ks
}

// mangle turns an arbitrary Go identifier / type string into an SMT simple symbol.
func mangle(s string) string {
	var sb strings.Builder
	for _, r := range s {
		switch {
		case r >= 'a' && r <= 'z', r >= 'A' && r <= 'Z', r >= '0' && r <= '9', r == '_':
			sb.WriteRune(r)
		case r == '.':
			sb.WriteString("_")
		case r == '/':
			sb.WriteString("_")
		case r == '*':
			sb.WriteString("P")
		case r == '$':
			sb.WriteString("S")
		default:
			fmt.Fprintf(&sb, "x%x", r)
		}
	}
	return sb.String()
}
