package main

import (
	"strings"
	"go/token"
	"fmt"
	"go/ast"
	"go/types"

	"golang.org/x/tools/go/ssa"
)

// modTarget describes one heap variable a loop (or inlined body) may write, and where.
type modTarget struct {
	whole bool
	refs  []ssa.Value // when !whole: store at these references only
}

type modSet struct {
	all bool
	m   map[string]*modTarget
}

func newModSet() *modSet { return &modSet{m: map[string]*modTarget{}} }

func (ms *modSet) whole(name string) {
	t := ms.m[name]
	if t == nil {
		t = &modTarget{}
		ms.m[name] = t
	}
	t.whole = true
}

func (ms *modSet) at(name string, ref ssa.Value) {
	t := ms.m[name]
	if t == nil {
		t = &modTarget{}
		ms.m[name] = t
	}
	for _, r := range t.refs {
		if r == ref {
			return
		}
	}
	t.refs = append(t.refs, ref)
}

// modifiedIn computes what the given blocks of fn may write.
func (fr *Frame) modifiedIn(fn *ssa.Function, blocks map[int]bool, ms *modSet, bind map[*ssa.FreeVar]ssa.Value, depth int) {
	w := fr.enc.w
	for _, b := range fn.Blocks {
		if blocks != nil && !blocks[b.Index] {
			continue
		}
		for _, ins := range b.Instrs {
			switch x := ins.(type) {
			case *ssa.Store:
				fr.modStore(x.Addr, ms, bind)
			case *ssa.MapUpdate:
				mt := x.Map.Type().Underlying().(*types.Map)
				ks, vs := w.sortOf(mt.Key()), w.sortOf(mt.Elem())
				ms.whole("M." + ks + "." + vs + ".has")
				ms.whole("M." + ks + "." + vs + ".val")
			case *ssa.Alloc, *ssa.MakeSlice, *ssa.MakeMap, *ssa.MakeClosure:
				ms.whole("$cnt")
			case *ssa.Next:
				if rng, ok := x.Iter.(*ssa.Range); ok && !x.IsString && fn == fr.fn {
					ms.whole(fr.visName(rng))
				}
			case *ssa.Range:
				if _, ok := x.X.Type().Underlying().(*types.Map); ok && fn == fr.fn {
					ms.whole(fr.visName(x))
				}
			case ssa.CallInstruction:
				fr.modCall(x, ms, bind, depth)
			}
		}
	}
}

func resolveBind(v ssa.Value, bind map[*ssa.FreeVar]ssa.Value) ssa.Value {
	if fv, ok := v.(*ssa.FreeVar); ok && bind != nil {
		if b, ok := bind[fv]; ok {
			return b
		}
	}
	return v
}

func (fr *Frame) modStore(addr ssa.Value, ms *modSet, bind map[*ssa.FreeVar]ssa.Value) {
	w := fr.enc.w
	addr = resolveBind(addr, bind)
	switch a := addr.(type) {
	case *ssa.FieldAddr:
		// walk to the root of the field chain
		chain := []*ssa.FieldAddr{a}
		root := resolveBind(a.X, bind)
		for {
			if fa, ok := root.(*ssa.FieldAddr); ok {
				chain = append(chain, fa)
				root = resolveBind(fa.X, bind)
				continue
			}
			break
		}
		first := chain[len(chain)-1]
		if ia, ok := root.(*ssa.IndexAddr); ok {
			fr.modStore(ia, ms, bind)
			return
		}
		pt := first.X.Type().Underlying().(*types.Pointer)
		if isBuilderType(pt.Elem()) {
			ms.whole("Bld")
			return
		}
		s := w.structSort(pt.Elem())
		ms.at(heapFieldName(s, first.Field), root)
	case *ssa.IndexAddr:
		var el types.Type
		switch t := a.X.Type().Underlying().(type) {
		case *types.Slice:
			el = t.Elem()
		case *types.Pointer:
			el = t.Elem().Underlying().(*types.Array).Elem()
		}
		// the backing array of the indexed slice / array (a slice value stands for its base)
		ms.at(heapSliceNameT(el), resolveBind(a.X, bind))
	case *ssa.Global:
		gname := "G." + a.Pkg.Pkg.Path() + "." + a.Name()
		w.globalSorts[gname] = w.sortOf(a.Type().(*types.Pointer).Elem())
		ms.whole(gname)
	default:
		pt, ok := addr.Type().Underlying().(*types.Pointer)
		if !ok {
			ms.all = true
			return
		}
		if isBuilderType(pt.Elem()) {
			ms.at("Bld", addr)
			return
		}
		if _, ok := pt.Elem().Underlying().(*types.Struct); ok {
			s := w.structSort(pt.Elem())
			for i := range s.Fields {
				ms.at(heapFieldName(s, i), addr)
			}
			return
		}
		ms.at(heapBoxName(w.sortOf(pt.Elem())), addr)
	}
}

func (fr *Frame) modCall(ci ssa.CallInstruction, ms *modSet, bind map[*ssa.FreeVar]ssa.Value, depth int) {
	w := fr.enc.w
	c := ci.Common()
	ms.whole("$cnt")
	if b, ok := c.Value.(*ssa.Builtin); ok {
		switch b.Name() {
		case "append", "copy":
			st := c.Args[0].Type().Underlying().(*types.Slice)
			ms.whole(heapSliceNameT(st.Elem()))
		}
		return
	}
	key, callee := fr.calleeKey(c)
	// the address of a struct field passed as an argument: the callee may write the field through it
	for _, a := range c.Args {
		if fa, ok := resolveBind(a, bind).(*ssa.FieldAddr); ok && fa.Field != 0 {
			if pt, ok := fa.Type().Underlying().(*types.Pointer); ok {
				if _, isStruct := pt.Elem().Underlying().(*types.Struct); isStruct && !isBuilderType(pt.Elem()) {
					fr.modStore(fa, ms, bind)
				}
			}
		}
	}
	if key != "" {
		if _, ok := w.P.Ifaces[key]; ok && c.IsInvoke() {
			return
		}
		if m := builtinModels[key]; m != nil {
			if key == "fmt.Fprint" || key == "fmt.Fprintln" || key == "fmt.Fprintf" {
				if b, ok := builderWriter(c.Args[0]); ok {
					ms.at("Bld", resolveBind(b, bind))
					return
				}
			}
			if m.modBld {
				recv := resolveBind(c.Args[0], bind)
				ms.at("Bld", recv)
			}
			for _, fx := range m.effects {
				ms.whole("$fx." + fx)
			}
			for _, g := range m.ghosts {
				ms.whole(g)
			}
			return
		}
		if fc := w.P.Contracts[key]; fc != nil && fc.Iterates != nil {
			// the callback's writes are the iterator's writes
			for _, a := range c.Args {
				if mc, ok := resolveBind(a, bind).(*ssa.MakeClosure); ok && depth < 4 {
					cf := mc.Fn.(*ssa.Function)
					nb := map[*ssa.FreeVar]ssa.Value{}
					for i, fv := range cf.FreeVars {
						nb[fv] = resolveBind(mc.Bindings[i], bind)
					}
					fr.modifiedIn(cf, nil, ms, nb, depth+1)
					return
				}
			}
			ms.all = true
			return
		}
		if fc := w.P.Contracts[key]; fc != nil && !fc.Inline {
			fr.modContract(fc, c, ms, bind)
			return
		}
	}
	if key == "" {
		if bn := fr.behaviourOf(c.Value); bn != "" {
			if bc := w.P.Contracts["behaviour:"+bn]; bc != nil {
				fr.modContract(bc, c, ms, bind)
				return
			}
		}
	}
	// closure invoked directly or inlined
	if callee != nil && callee.Blocks != nil && depth < 4 {
		if mc, ok := c.Value.(*ssa.MakeClosure); ok {
			nb := map[*ssa.FreeVar]ssa.Value{}
			for i, fv := range callee.FreeVars {
				nb[fv] = resolveBind(mc.Bindings[i], bind)
			}
			fr.modifiedIn(callee, nil, ms, nb, depth+1)
			return
		}
	}
	ms.all = true
}

// modContract adds the frame of a contracted callee to the modification set.
func (fr *Frame) modContract(fc *FuncContract, c *ssa.CallCommon, ms *modSet, bind map[*ssa.FreeVar]ssa.Value) {
	w := fr.enc.w
	args := c.Args
	if c.IsInvoke() {
		args = append([]ssa.Value{c.Value}, c.Args...)
	}
	paramIdx := map[string]int{}
	for i, p := range fc.Params {
		paramIdx[p] = i
	}
	if fc.AssignsAny {
		ms.all = true
	}
	for _, fx := range fc.Effects {
		ms.whole("$fx." + fx)
		for _, g := range effectGhosts[fx] {
			ms.whole(g)
		}
	}
	for _, a := range fc.Assigns {
		switch e := a.Expr.(type) {
		case *ast.SelectorExpr:
			// pkg.Var: a global
			if id, ok := e.X.(*ast.Ident); ok && fc.Scope != nil {
				if _, isParam := paramIdx[id.Name]; !isParam {
					if pkg := fc.Scope.Aliases[id.Name]; pkg != nil {
						if v, ok := pkg.Scope().Lookup(e.Sel.Name).(*types.Var); ok {
							ms.whole("G." + v.Pkg().Path() + "." + v.Name())
							continue
						}
					}
				}
			}
			// p.f with p a parameter: pointwise; otherwise whole array
			if id, ok := e.X.(*ast.Ident); ok {
				if i, ok := paramIdx[id.Name]; ok && i < len(args) {
					if pt, ok := args[i].Type().Underlying().(*types.Pointer); ok {
						if _, ok := pt.Elem().Underlying().(*types.Struct); ok {
							s := w.structSort(pt.Elem())
							if j := s.fieldIndex(e.Sel.Name); j >= 0 {
								ms.at(heapFieldName(s, j), resolveBind(args[i], bind))
								continue
							}
						}
					}
				}
			}
			// general case: determine the array by typing the expression is not possible here; be coarse
			ms.all = true
		case *ast.StarExpr:
			if id, ok := e.X.(*ast.Ident); ok {
				if i, ok := paramIdx[id.Name]; ok && i < len(args) {
					if pt, ok := args[i].Type().Underlying().(*types.Pointer); ok {
						if _, ok := pt.Elem().Underlying().(*types.Struct); ok {
							s := w.structSort(pt.Elem())
							for j := range s.Fields {
								ms.at(heapFieldName(s, j), resolveBind(args[i], bind))
							}
							continue
						}
						ms.at(heapBoxName(w.sortOf(pt.Elem())), resolveBind(args[i], bind))
						continue
					}
				}
			}
			ms.all = true
		case *ast.Ident:
			if gs, ok := ghostGroups[e.Name]; ok {
				for _, g := range gs {
					ms.whole(g)
				}
				continue
			}
			if fc.Scope != nil && fc.Scope.Pkg != nil {
				if v, ok := fc.Scope.Pkg.Scope().Lookup(e.Name).(*types.Var); ok {
					ms.whole("G." + v.Pkg().Path() + "." + v.Name())
					continue
				}
			}
			ms.all = true
		case *ast.CallExpr:
			if id, ok := e.Fun.(*ast.Ident); ok && len(e.Args) == 1 && id.Name == "all" {
				if sel, ok := e.Args[0].(*ast.SelectorExpr); ok {
					if t, err := resolveTypeExpr(sel.X, fc.Scope, w.P); err == nil {
						s := w.structSort(t)
						if j := s.fieldIndex(sel.Sel.Name); j >= 0 {
							ms.whole(heapFieldName(s, j))
							continue
						}
					}
				}
			}
			// elems(x), contents(x), boxes(T)
			if id, ok := e.Fun.(*ast.Ident); ok && len(e.Args) == 1 && id.Name == "boxes" {
				if t, err := resolveTypeExpr(e.Args[0], fc.Scope, w.P); err == nil {
					ms.whole(heapBoxName(w.sortOf(t)))
					continue
				}
			}
			if id, ok := e.Fun.(*ast.Ident); ok && len(e.Args) == 1 && id.Name == "arrays" {
				if t, err := resolveTypeExpr(e.Args[0], fc.Scope, w.P); err == nil {
					ms.whole(heapSliceNameT(t))
					continue
				}
			}
			if id, ok := e.Fun.(*ast.Ident); ok && len(e.Args) == 1 {
				if aid, ok := e.Args[0].(*ast.Ident); ok {
					if i, ok := paramIdx[aid.Name]; ok && i < len(args) {
						switch id.Name {
						case "contents":
							ms.at("Bld", resolveBind(args[i], bind))
							continue
						case "elems":
							if st, ok := args[i].Type().Underlying().(*types.Slice); ok {
								ms.whole(heapSliceNameT(st.Elem()))
								continue
							}
						}
					}
				}
			}
			ms.all = true
		default:
			ms.all = true
		}
	}
}

// definedOutside reports whether v is defined outside the loop (so it is loop invariant).
func definedOutside(v ssa.Value, li *loopInfo) bool {
	switch x := v.(type) {
	case *ssa.Parameter, *ssa.FreeVar, *ssa.Global, *ssa.Const, *ssa.Function:
		return true
	case ssa.Instruction:
		return !li.body[x.Block().Index]
	}
	return false
}

func (fr *Frame) loopHeader(li *loopInfo, b *ssa.BasicBlock, preds []*ssa.BasicBlock, conds []*Term,
	phiVal func(*ssa.Phi, []*ssa.BasicBlock, []*Term) *Term) {
	enc := fr.enc
	w := enc.w
	pc := fr.curPC
	entry := fr.cur.clone()
	li.entryState = entry
	li.phiEntry = map[*ssa.Phi]*Term{}
	var phis []*ssa.Phi
	for _, ins := range b.Instrs {
		if phi, ok := ins.(*ssa.Phi); ok {
			phis = append(phis, phi)
			li.phiEntry[phi] = phiVal(phi, preds, conds)
		} else {
			break
		}
	}
	fc := fr.fc
	var invs []*Clause
	if fc != nil {
		invs = fc.LoopInv[li.ordinal]
	}
	// 1. invariants hold on entry
	li.ghostK = IntLit(0)
	for i, inv := range invs {
		for _, phi := range phis {
			fr.vals[phi] = li.phiEntry[phi]
		}
		t := fr.trInvariant(inv, li, entry, entry)
		enc.oblige(fmt.Sprintf("loop%d:inv%d:entry", li.ordinal, i+1), inv.Where(), inv.Text, inv.Tags, pc, t)
	}
	// 2. havoc
	ms := newModSet()
	fr.modifiedIn(fr.fn, li.body, ms, fr.ssaBindings(), 0)
	st := fr.cur
	fr.applyHavoc(ms, st, entry, func(r ssa.Value) int {
		if definedOutside(r, li) {
			return 0
		}
		if a, ok := r.(*ssa.MakeSlice); ok && li.body[a.Block().Index] {
			return 1
		}
		if a, ok := r.(*ssa.Alloc); ok && li.body[a.Block().Index] {
			return 1
		}
		return 2
	}, fmt.Sprintf("loop %d of %s", li.ordinal, fr.fn.Name()))
	for _, phi := range phis {
		so := w.sortOf(phi.Type())
		c := enc.declare(fr.pfx+phi.Name(), so)
		fr.vals[phi] = c
		fr.assumeWF(c, phi.Type(), st, 1)
	}
	// 3. assume invariants
	li.ghostK = enc.declare(fr.pfx+"ghostk", "Int")
	li.ghostKHead = li.ghostK
	enc.assume(Le(IntLit(0), li.ghostK), "ghost iteration count")
	for _, inv := range invs {
		t := fr.trInvariant(inv, li, st, entry)
		enc.assume(Implies(pc, t), "loop invariant "+inv.Where())
	}
	// range-index fact: the hidden index of a range loop is >= -1
	for _, phi := range phis {
		if phi.Comment == "rangeindex" {
			enc.assume(Le(IntLit(-1), fr.vals[phi]), "range index")
		}
	}
}

// stableLoad recognises a reference that is re-read inside the construct from a field the construct never
// writes, of an object defined before it (p.file inside a loop that does not assign any .file): its value is
// the value at entry.
func (fr *Frame) stableLoad(r ssa.Value, ms *modSet, entry *State, classify func(ssa.Value) int) *Term {
	u, ok := r.(*ssa.UnOp)
	if !ok || u.Op != token.MUL {
		return nil
	}
	fa, ok := u.X.(*ssa.FieldAddr)
	if !ok || classify(fa.X) != 0 {
		return nil
	}
	if _, isIns := fa.X.(ssa.Instruction); isIns {
		if _, ok := fr.vals[fa.X]; !ok {
			return nil
		}
	}
	pt, ok := fa.X.Type().Underlying().(*types.Pointer)
	if !ok {
		return nil
	}
	w := fr.enc.w
	s := w.structSort(pt.Elem())
	name := heapFieldName(s, fa.Field)
	if ms.all {
		return nil
	}
	if _, written := ms.m[name]; written {
		return nil
	}
	if _, isSlice := r.Type().Underlying().(*types.Slice); isSlice {
		return nil
	}
	return Select(entry.Get(name, arraySort("Int", s.Fields[fa.Field].Sort)), fr.val(fa.X))
}

func isMonotoneGhost(name string) bool {
	return name == "$fsw.n" || name == "$out.n" || name == "$warn.n"
}

func (fr *Frame) guessHeapSort(name string) string {
	if name == "$cnt" || (len(name) > 4 && name[:4] == "$fx.") {
		return "Int"
	}
	if name == "Bld" {
		return arraySort("Int", "String")
	}
	if so, ok := ghostSorts[name]; ok {
		return so
	}
	return ""
}

// ssaBindings maps this frame's free variables to the SSA values bound in the parent (for
// modification analysis of inlined closures).
func (fr *Frame) ssaBindings() map[*ssa.FreeVar]ssa.Value { return nil }

func (fr *Frame) backEdge(li *loopInfo, from *ssa.BasicBlock) {
	enc := fr.enc
	c, ok := fr.edge[[2]int{from.Index, li.header.Index}]
	if !ok {
		return
	}
	fc := fr.fc
	if fc == nil {
		return
	}
	invs := fc.LoopInv[li.ordinal]
	if len(invs) == 0 {
		return
	}
	// phi values along this edge
	saved := map[*ssa.Phi]*Term{}
	idx := -1
	for j, p := range li.header.Preds {
		if p == from {
			idx = j
		}
	}
	for _, ins := range li.header.Instrs {
		phi, ok := ins.(*ssa.Phi)
		if !ok {
			break
		}
		saved[phi] = fr.vals[phi]
	}
	newVals := map[*ssa.Phi]*Term{}
	for phi := range saved {
		newVals[phi] = fr.val(phi.Edges[idx])
	}
	for phi, v := range newVals {
		fr.vals[phi] = v
	}
	st := fr.out[from.Index]
	if li.ghostKHead != nil {
		li.ghostK = Add(li.ghostKHead, IntLit(1))
	}
	for i, inv := range invs {
		t := fr.trInvariant(inv, li, st, li.entryState)
		enc.oblige(fmt.Sprintf("loop%d:inv%d:preserved", li.ordinal, i+1), inv.Where(), inv.Text, inv.Tags, c, t)
	}
	li.ghostK = li.ghostKHead
	for phi, v := range saved {
		fr.vals[phi] = v
	}
}

// trInvariant translates a loop invariant at the loop header, with phis bound to fr.vals.
func (fr *Frame) trInvariant(inv *Clause, li *loopInfo, st *State, entry *State) *Term {
	fr.resolveState = st
	defer func() { fr.resolveState = nil }()
	env := fr.env(st)
	env.entry = entry
	env.where = inv.Where()
	env.resolve = func(name string) (TV, bool) { return fr.resolveName(name, li) }
	if rng := fr.mapRangeOf(li); rng != nil {
		name := fr.visName(rng)
		if so := fr.enc.w.heapSortOfName(name); so != "" {
			env.vis = st.Get(name, so)
		}
	}
	return fr.safeTr(env, inv)
}

// mapRangeOf returns the range-over-map iterator a loop steps (its Next lies in the loop and in no inner loop).
func (fr *Frame) mapRangeOf(li *loopInfo) *ssa.Range {
	if li == nil {
		return nil
	}
	for _, ins := range li.header.Instrs {
		if nx, ok := ins.(*ssa.Next); ok && !nx.IsString {
			if rng, ok := nx.Iter.(*ssa.Range); ok {
				if _, isMap := rng.X.Type().Underlying().(*types.Map); isMap {
					return rng
				}
			}
		}
	}
	return nil
}

// softKinds: clause kinds whose unresolvable identifiers fail the clause rather than the function.
var softKinds = map[string]bool{"ensures": true, "check": true, "invariant": true, "iter": true}

func (fr *Frame) safeTr(env *Env, c *Clause) (t *Term) {
	defer func() {
		if r := recover(); r != nil {
			if se, ok := r.(specErr); ok {
				if strings.Contains(se.msg, "unknown identifier") && (softKinds[c.Kind] || fr.softAtCall) {
					// the clause names something that does not exist at this point of the (changed) code: it
					// cannot be established; an unconstrained constant makes exactly this clause fail as an
					// obligation (and adds nothing when the clause is assumed) instead of losing the function
					u := fr.enc.declare("unresolved", "Bool")
					fr.enc.w.unresolved[u.Op] = se.msg
					t = u
					return
				}
				panic(unsupportedErr{"contract error: " + se.msg})
			}
			panic(r)
		}
	}()
	return env.trBool(c.Expr)
}

// resolveName finds the SSA value a source-level name denotes at a loop header.
func (fr *Frame) resolveName(name string, li *loopInfo) (TV, bool) {
	if tv, ok := fr.paramTV[name]; ok {
		return tv, true
	}
	if name == "ghost_k" && li != nil {
		for _, ins := range li.header.Instrs {
			if phi, ok := ins.(*ssa.Phi); ok && phi.Comment == "rangeindex" {
				return TV{Add(fr.vals[phi], IntLit(1)), tyInt}, true
			}
		}
		if li.ghostK != nil {
			// no range index (range over a map, plain for): $k is the ghost count of completed iterations
			return TV{li.ghostK, tyInt}, true
		}
		return TV{}, false
	}
	if li != nil {
		for _, ins := range li.header.Instrs {
			if phi, ok := ins.(*ssa.Phi); ok && phi.Comment == name {
				return TV{fr.vals[phi], phi.Type()}, true
			}
		}
	}
	// address-taken locals
	var found ssa.Value
	n := 0
	for _, b := range fr.fn.Blocks {
		for _, ins := range b.Instrs {
			if a, ok := ins.(*ssa.Alloc); ok && a.Comment == name {
				found = a
				n++
			}
		}
	}
	if n == 1 {
		if t, ok := fr.vals[found]; ok {
			return TV{t, found.Type()}, true
		}
	}
	// free variables (captured cells)
	for _, fv := range fr.fn.FreeVars {
		if fv.Name() == name {
			if t, ok := fr.bindings[fv]; ok {
				// a captured variable is a cell: the name denotes the value it holds now
				if pt, isPtr := fv.Type().Underlying().(*types.Pointer); isPtr && fr.resolveState != nil {
					e := fr.env(fr.resolveState)
					return TV{e.loadPtr(fr.resolveState, t, pt.Elem()), pt.Elem()}, true
				}
				return TV{t, fv.Type()}, true
			}
		}
	}
	// lifted locals through debug references: the latest reference that dominates the loop header
	if li != nil && !fr.inResolve {
		for _, ins := range li.header.Instrs {
			if _, isPhi := ins.(*ssa.Phi); isPhi {
				continue
			}
			fr.inResolve = true
			tv, ok := fr.resolveNameAt(name, nil, ins)
			fr.inResolve = false
			return tv, ok
		}
	}
	if li == nil && !fr.inResolve {
		// function exit: the latest reference dominating a return
		for _, b := range fr.fn.Blocks {
			if len(b.Instrs) == 0 {
				continue
			}
			if ret, ok := b.Instrs[len(b.Instrs)-1].(*ssa.Return); ok {
				fr.inResolve = true
				tv, ok := fr.resolveNameAt(name, nil, ret)
				fr.inResolve = false
				if ok {
					return tv, true
				}
			}
		}
	}
	return TV{}, false
}

// resolveNameAt resolves a source-level name at an instruction: the latest debug reference to the
// variable that dominates the instruction.
func (fr *Frame) resolveNameAt(name string, li *loopInfo, at ssa.Instruction) (TV, bool) {
	if tv, ok := fr.paramTV[name]; ok {
		return tv, true
	}
	// address-taken locals and captured cells
	for _, b := range fr.fn.Blocks {
		for _, ins := range b.Instrs {
			if a, ok := ins.(*ssa.Alloc); ok && a.Comment == name {
				if t, ok := fr.vals[a]; ok {
					return TV{t, a.Type()}, true
				}
			}
		}
	}
	// reaching definition: walk the dominator chain upwards from the instruction; in each block the
	// latest debug reference before the point wins, then a phi of that variable at the block's head
	var best ssa.Value
	usable := func(v ssa.Value) bool {
		if _, known := fr.vals[v]; known {
			return true
		}
		_, isConst := v.(*ssa.Const)
		return isConst
	}
	for b, first := at.Block(), true; b != nil && best == nil; b, first = b.Idom(), false {
		limit := len(b.Instrs)
		if first {
			for i, x := range b.Instrs {
				if x == at {
					limit = i
					break
				}
			}
		}
		for i := limit - 1; i >= 0 && best == nil; i-- {
			switch x := b.Instrs[i].(type) {
			case *ssa.DebugRef:
				if id, ok := x.Expr.(*ast.Ident); ok && id.Name == name && !x.IsAddr && usable(x.X) {
					best = x.X
				}
			case *ssa.Phi:
				if x.Comment == name && usable(x) {
					best = x
				}
			}
		}
	}
	if best != nil {
		return TV{fr.val(best), best.Type()}, true
	}
	return fr.resolveName(name, li)
}

// applyHavoc replaces what a loop (or an expanded iterator callback) may write by unknown values.
// classify: 0 = reference defined before the construct (pointwise havoc), 1 = memory allocated
// inside it (only fresh references are written), 2 = anything else (whole array).
func (fr *Frame) applyHavoc(ms *modSet, st *State, entry *State, classify func(ssa.Value) int, what string) {
	enc := fr.enc
	w := enc.w
	if ms.all {
		before := st.clone()
		st.havocAll()
		fr.assumeGlobals(st)
		fr.keepPrivate(before, st)
		w.assumptions[what+" calls code without a frame: all heap state is havocked there"] = true
		return
	}
	for _, name := range sortedKeys(ms.m) {
		t := ms.m[name]
		so := w.heapSortOfName(name)
		if so == "" {
			enc.unsup("%s writes heap variable %s whose sort is unknown", what, name)
		}
		cur := st.Get(name, so)
		pointwise := !t.whole && len(so) > 11 && so[:11] == "(Array Int "
		freshRegion := false
		var outside []ssa.Value
		var stable []*Term
		if pointwise {
			for _, r := range t.refs {
				if ref := fr.stableLoad(r, ms, entry, classify); ref != nil {
					stable = append(stable, ref)
					continue
				}
				switch classify(r) {
				case 0:
					outside = append(outside, r)
				case 1:
					freshRegion = true
				default:
					pointwise = false
				}
			}
		}
		if pointwise {
			_, el := splitSortPair(so[7 : len(so)-1])
			if freshRegion {
				base := enc.declare("lhb_"+name, so)
				cntEntry := entry.Get("$cnt", "Int")
				q := Leaf(fmt.Sprintf("q_lh_%d", w.fresh()))
				enc.assume(A("forall", A("(("+q.Op+" Int))"),
					A("!", Implies(Lt(q, cntEntry), Eq(Select(base, q), Select(cur, q))), Leaf(":pattern"), A("", Select(base, q)))),
					what+" writes "+name+" only at references allocated inside it (or listed)")
				cur = base
			}
			for _, r := range outside {
				fv := enc.declare("hv_"+name, el)
				ref := fr.val(r)
				if _, isSlice := r.Type().Underlying().(*types.Slice); isSlice {
					ref = A("s_base", ref)
				}
				cur = Store(cur, ref, fv)
			}
			for _, ref := range stable {
				cur = Store(cur, ref, enc.declare("hv_"+name, el))
			}
			st.Set(name, enc.define("lh_"+name, so, cur))
		} else {
			nv := enc.declare("lh_"+name, so)
			if name == "$cnt" || (len(name) > 4 && name[:4] == "$fx.") || isMonotoneGhost(name) {
				enc.assume(Le(cur, nv), "monotone counter")
			}
			st.Set(name, nv)
		}
	}
}
