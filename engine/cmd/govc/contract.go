package main

import (
	"bufio"
	"fmt"
	"go/ast"
	"go/parser"
	"go/types"
	"os"
	"regexp"
	"strconv"
	"strings"

	"golang.org/x/tools/go/packages"
)

// Scope resolves package qualifiers and type names inside contract expressions.
type Scope struct {
	Pkg     *types.Package
	Aliases map[string]*types.Package
}

type Clause struct {
	Kind string // requires, ensures, invariant, decreases, assigns, axiom
	Text string
	Expr ast.Expr
	Tags []string
	File string
	Line int
	Matched bool // atcall clauses: some call site matched (an anchor that disappeared must not pass silently)
}

func (c *Clause) Where() string { return fmt.Sprintf("%s:%d", shortFile(c.File), c.Line) }

func shortFile(f string) string {
	f = strings.TrimPrefix(f, "/repo/")
	f = strings.TrimPrefix(f, "/verif/")
	return f
}

type FuncContract struct {
	Key      string
	Params   []string
	Results  []string
	Requires []*Clause
	Ensures  []*Clause
	Captured []*Clause // behaviour contracts: ASSUMED facts about captured variables (not checked at call sites)
	Iterates *IterSpec            // iterator functions: the callback protocol
	IterInv  map[string][]*Clause // call-site invariants for expanded iterator calls, by callee suffix
	AfterAssume []*Clause // ASSUMED facts right after a call of a named library callee (explicit, reported assumptions)
	AtCalls  []*Clause // assertions at every call of a named callee (Tags[..], Callee in Kind)
	Checks   []*Clause // like ensures, but verified only (not exported to callers); may mention locals
	Assigns  []*Clause
	HasAssigns bool
	BeforeAssume []*Clause
	SplitExits bool
	PropKinds  map[string][]string // property -> obligation kinds it owns here (from "fileprops P:kind+kind"); absent: all untagged
	Decreases  *Clause // function-level variant: checked at calls between functions that both declare one
	AssignsAny bool // "assigns anything": no heap frame is claimed (effects and ghost logs still are)
	Effects    []string
	HasEffects bool
	Nilable    map[string]bool
	LoopInv    map[int][]*Clause
	LoopDec    map[int]*Clause
	Pure       bool
	PureNames  []string
	Props      []string
	Splits     []*Clause
	Reveal     map[string]bool
	Uses       []*Clause
	Behaves    map[string]string // parameter / result name -> behaviour contract
	Behaviour  bool
	Trusted    bool
	Lib        bool
	Inline     bool // closure bodies that are expanded at their call sites
	Scope      *Scope
	File       string
	Line       int
	Used       bool
}

type SpecParam struct {
	Name string
	Type types.Type
}

type SpecFunc struct {
	Name      string
	Params    []SpecParam
	Result    types.Type
	Body      ast.Expr
	BodyText  string
	Scope     *Scope
	File      string
	Line      int
	Recursive bool
	Opaque    bool // uninterpreted unless the function under proof reveals it
	Reads     []string // heap arrays read (computed)
	readsDone bool
}

type Axiom struct {
	Name   string
	Params []SpecParam
	Body   ast.Expr
	Text   string
	Scope  *Scope
	File   string
	Line   int
	Lib    bool
}

// IterSpec: "iterates <cb> count <expr> elem <expr>": the function calls cb(elem[$i]) for $i = 0, 1, ...
// < count, in order, until cb returns true.
type IterSpec struct {
	Param string
	Count ast.Expr
	Elem  ast.Expr
	When  ast.Expr // optional filter: cb is called only for indices satisfying it
	NoStop bool    // the callback's result does not end the iteration
	Text  string
}

type IfaceSpec struct {
	Key      string // (<iface type>).<method>
	Spec     string // spec function applied to the receiver value
	Requires string // optional spec predicate over the receiver that every call site must establish
}

// TypeInv is an assumed invariant of every value of a library type (instantiated when such a value
// is obtained: parameter, load, call result, map lookup).
type TypeInv struct {
	Key   string
	Vars  []string
	Type  types.Type
	Expr  ast.Expr
	Text  string
	Scope *Scope
}

type GlobalFact struct {
	Lib  bool
	Key  string
	Expr ast.Expr
	Text string
	Scope *Scope
}

var clauseKeywords = map[string]bool{"func": true, "spec": true, "axiom": true, "requires": true, "ensures": true,
	"assigns": true, "effects": true, "nilable": true, "loop": true, "pure": true, "trusted": true, "iface": true,
	"import": true, "inline": true, "global": true, "props": true, "split": true, "reveal": true, "use": true, "typeinv": true, "behaves": true, "behaviour": true, "check": true, "captured": true, "fileprops": true, "decreases": true, "atcall": true, "iterates": true, "iter": true, "assume-after": true, "assume-before": true}

func firstWord(s string) string {
	s = strings.TrimSpace(s)
	i := strings.IndexAny(s, " \t(")
	if i < 0 {
		return s
	}
	return s[:i]
}

// joinContinuations merges continuation lines into logical clauses.
func joinContinuations(lines []cline) []cline {
	var out []cline
	for _, l := range lines {
		t := l.text
		// strip trailing "// comment" (only when preceded by two spaces to avoid cutting string literals with //)
		if i := strings.Index(t, "   // "); i >= 0 {
			t = t[:i]
		}
		if strings.TrimSpace(t) == "" {
			continue
		}
		w := firstWord(t)
		if clauseKeywords[w] || len(out) == 0 {
			out = append(out, cline{strings.TrimSpace(t), l.file, l.line})
		} else {
			out[len(out)-1].text += " " + strings.TrimSpace(t)
		}
	}
	return out
}

func (P *Program) parseContractFile(p *packages.Package, f *ast.File, fname string, lib bool) error {
	sc := &Scope{Pkg: p.Types, Aliases: importAliases(p)}
	return P.parseClauses(joinContinuations(contractLinesOfAST(p, f, fname)), sc, p.PkgPath, lib)
}

func (P *Program) parseLibFile(fname string) error {
	fh, err := os.Open(fname)
	if err != nil {
		return err
	}
	defer fh.Close()
	var lines []cline
	s := bufio.NewScanner(fh)
	s.Buffer(make([]byte, 1<<20), 1<<20)
	n := 0
	for s.Scan() {
		n++
		t := s.Text()
		if strings.HasPrefix(t, "//@") {
			lines = append(lines, cline{strings.TrimPrefix(t, "//@"), fname, n})
		}
	}
	sc := &Scope{Aliases: map[string]*types.Package{}}
	return P.parseClauses(joinContinuations(lines), sc, "", true)
}

var reTags = regexp.MustCompile(`^\{([A-Za-z0-9_, ]+)\}\s*`)

func (P *Program) parseClauses(lines []cline, sc *Scope, pkgPath string, lib bool) error {
	var cur *FuncContract
	var fileProps []string
	errf := func(l cline, format string, a ...any) error {
		return fmt.Errorf("%s:%d: %s", l.file, l.line, fmt.Sprintf(format, a...))
	}
	for _, l := range lines {
		w := firstWord(l.text)
		rest := strings.TrimSpace(strings.TrimPrefix(l.text, w))
		switch w {
		case "import":
			// import alias "path"
			fs := strings.Fields(rest)
			if len(fs) != 2 {
				return errf(l, "bad import")
			}
			path := strings.Trim(fs[1], `"`)
			tp := P.AllTypes[path]
			if tp == nil {
				return errf(l, "import %q: package not loaded", path)
			}
			sc.Aliases[fs[0]] = tp
		case "iterates":
			// iterates <cb> count <expr> elem <expr>
			i := strings.Index(rest, " count ")
			j := strings.Index(rest, " elem ")
			if i < 0 || j < i || cur == nil {
				return errf(l, "iterates <cb> count <expr> elem <expr> expected")
			}
			ce, err := parseSpecExpr(strings.TrimSpace(rest[i+7 : j]))
			if err != nil {
				return errf(l, "%v", err)
			}
			elemText := strings.TrimSpace(rest[j+6:])
			nostop := false
			if strings.HasSuffix(elemText, " nostop") {
				nostop = true
				elemText = strings.TrimSpace(strings.TrimSuffix(elemText, " nostop"))
			}
			var we ast.Expr
			if k := strings.Index(elemText, " when "); k >= 0 {
				we, err = parseSpecExpr(strings.TrimSpace(elemText[k+6:]))
				if err != nil {
					return errf(l, "%v", err)
				}
				elemText = strings.TrimSpace(elemText[:k])
			}
			ee, err := parseSpecExpr(elemText)
			if err != nil {
				return errf(l, "%v", err)
			}
			cur.Iterates = &IterSpec{Param: strings.TrimSpace(rest[:i]), Count: ce, Elem: ee, When: we, NoStop: nostop, Text: rest}
		case "iter":
			// iter <callee suffix> invariant [{tags}] expr
			fs := strings.SplitN(rest, " ", 3)
			if len(fs) < 3 || fs[1] != "invariant" || cur == nil {
				return errf(l, "iter <callee> invariant <expr> expected")
			}
			text := strings.TrimSpace(fs[2])
			var tags []string
			if m := reTags.FindStringSubmatch(text); m != nil {
				for _, t := range strings.Split(m[1], ",") {
					tags = append(tags, strings.TrimSpace(t))
				}
				text = text[len(m[0]):]
			}
			e, err := parseSpecExpr(text)
			if err != nil {
				return errf(l, "%v in %q", err, text)
			}
			if cur.IterInv == nil {
				cur.IterInv = map[string][]*Clause{}
			}
			cur.IterInv[fs[0]] = append(cur.IterInv[fs[0]], &Clause{Kind: "iter", Text: text, Expr: e, Tags: tags, File: l.file, Line: l.line})
		case "assume-before":
			// assume-before <callee suffix>: expr — an explicit, reported ASSUMPTION made just before a call
			i := strings.Index(rest, ":")
			if i < 0 || cur == nil {
				return errf(l, "assume-before <callee>: expr expected")
			}
			text := strings.TrimSpace(rest[i+1:])
			e, err := parseSpecExpr(text)
			if err != nil {
				return errf(l, "%v in %q", err, text)
			}
			cur.BeforeAssume = append(cur.BeforeAssume, &Clause{Kind: strings.TrimSpace(rest[:i]), Text: text, Expr: e, File: l.file, Line: l.line})
		case "assume-after":
			// assume-after <callee suffix>: expr   — an explicit, reported ASSUMPTION about library behaviour
			i := strings.Index(rest, ":")
			if i < 0 || cur == nil {
				return errf(l, "assume-after <callee>: expr expected")
			}
			text := strings.TrimSpace(rest[i+1:])
			e, err := parseSpecExpr(text)
			if err != nil {
				return errf(l, "%v in %q", err, text)
			}
			cur.AfterAssume = append(cur.AfterAssume, &Clause{Kind: strings.TrimSpace(rest[:i]), Text: text, Expr: e, File: l.file, Line: l.line})
		case "atcall":
			// atcall <callee suffix>: [{tags}] expr   — asserted before every call of that callee, over locals
			i := strings.Index(rest, ":")
			if i < 0 || cur == nil {
				return errf(l, "atcall <callee>: expr expected")
			}
			callee := strings.TrimSpace(rest[:i])
			text := strings.TrimSpace(rest[i+1:])
			var tags []string
			if m := reTags.FindStringSubmatch(text); m != nil {
				for _, t := range strings.Split(m[1], ",") {
					tags = append(tags, strings.TrimSpace(t))
				}
				text = text[len(m[0]):]
			}
			e, err := parseSpecExpr(text)
			if err != nil {
				return errf(l, "%v in %q", err, text)
			}
			cur.AtCalls = append(cur.AtCalls, &Clause{Kind: callee, Text: text, Expr: e, Tags: tags, File: l.file, Line: l.line})
		case "behaves":
			fs := strings.Fields(rest)
			if len(fs) != 2 || cur == nil {
				return errf(l, "behaves <name> <behaviour> expected")
			}
			if cur.Behaves == nil {
				cur.Behaves = map[string]string{}
			}
			cur.Behaves[fs[0]] = fs[1]
		case "behaviour":
			fc, err := parseFuncHeader(rest, "", &Scope{Aliases: map[string]*types.Package{}}, P)
			if err != nil {
				return errf(l, "%v", err)
			}
			fc.Key = "behaviour:" + fc.Key
			fc.Behaviour = true
			fc.Scope, fc.File, fc.Line, fc.Lib = sc, l.file, l.line, lib
			fc.Nilable = map[string]bool{}
			fc.LoopInv = map[int][]*Clause{}
			fc.LoopDec = map[int]*Clause{}
			P.Contracts[fc.Key] = fc
			cur = fc
		case "func":
			fc, err := parseFuncHeader(rest, pkgPath, sc, P)
			if err != nil {
				return errf(l, "%v", err)
			}
			fc.Scope, fc.File, fc.Line, fc.Lib = sc, l.file, l.line, lib
			fc.Nilable = map[string]bool{}
			fc.LoopInv = map[int][]*Clause{}
			fc.LoopDec = map[int]*Clause{}
			if _, dup := P.Contracts[fc.Key]; dup {
				return errf(l, "duplicate contract for %s", fc.Key)
			}
			P.Contracts[fc.Key] = fc
			cur = fc
			for _, fp := range fileProps {
				name, kinds, _ := strings.Cut(fp, ":")
				if kinds == "" {
					cur.Props = append(cur.Props, name)
					continue
				}
				if cur.PropKinds == nil {
					cur.PropKinds = map[string][]string{}
				}
				cur.PropKinds[name] = append(cur.PropKinds[name], strings.Split(kinds, "+")...)
			}
		case "fileprops":
			// fileprops Cxx, ...: every function declared below in this file belongs to these properties
			// (its untagged obligations - frames, effects, call preconditions, safety, untagged invariants -
			// and the clauses tagged with them count for those properties).  Cxx:kind+kind restricts the
			// untagged obligations the property owns here to those kinds (safety, call, effects, frame, loop)
			fileProps = append(fileProps, splitNames(rest)...)
		case "requires", "ensures", "check", "captured":
			if cur == nil {
				return errf(l, "%s outside func", w)
			}
			var tags []string
			if m := reTags.FindStringSubmatch(rest); m != nil {
				for _, t := range strings.Split(m[1], ",") {
					tags = append(tags, strings.TrimSpace(t))
				}
				rest = rest[len(m[0]):]
			}
			e, err := parseSpecExpr(rest)
			if err != nil {
				return errf(l, "%v in %q", err, rest)
			}
			c := &Clause{Kind: w, Text: rest, Expr: e, Tags: tags, File: l.file, Line: l.line}
			if w == "requires" {
				cur.Requires = append(cur.Requires, c)
			} else if w == "check" {
				cur.Checks = append(cur.Checks, c)
			} else if w == "captured" {
				cur.Captured = append(cur.Captured, c)
			} else {
				cur.Ensures = append(cur.Ensures, c)
			}
		case "assigns":
			if cur == nil {
				return errf(l, "assigns outside func")
			}
			cur.HasAssigns = true
			if rest == "nothing" {
				break
			}
			if rest == "anything" {
				cur.AssignsAny = true
				break
			}
			for _, part := range splitTopLevel(rest, ',') {
				part = strings.TrimSpace(part)
				e, err := parseSpecExpr(part)
				if err != nil {
					return errf(l, "%v in %q", err, part)
				}
				cur.Assigns = append(cur.Assigns, &Clause{Kind: "assigns", Text: part, Expr: e, File: l.file, Line: l.line})
			}
		case "effects":
			if cur == nil {
				return errf(l, "effects outside func")
			}
			cur.HasEffects = true
			if rest == "none" {
				break
			}
			for _, part := range strings.Split(rest, ",") {
				cur.Effects = append(cur.Effects, strings.TrimSpace(part))
			}
		case "nilable":
			for _, part := range strings.Split(rest, ",") {
				cur.Nilable[strings.TrimSpace(part)] = true
			}
		case "pure":
			cur.Pure = true
			cur.PureNames = splitNames(rest)
		case "split":
			if rest == "exits" {
				// prove every postcondition once per return statement instead of once over the merged exit state
				cur.SplitExits = true
				break
			}
			for _, part := range splitTopLevel(rest, ',') {
				part = strings.TrimSpace(part)
				e, err := parseSpecExpr(part)
				if err != nil {
					return errf(l, "%v in %q", err, part)
				}
				cur.Splits = append(cur.Splits, &Clause{Kind: "split", Text: part, Expr: e, File: l.file, Line: l.line})
			}
		case "decreases":
			// decreases e: a non-negative integer measure of the parameters; at every call from a function with a
			// measure to a function with a measure the callee's must be strictly smaller (termination of recursion)
			if cur == nil {
				return errf(l, "decreases outside func")
			}
			e, err := parseSpecExpr(rest)
			if err != nil {
				return errf(l, "%v in %q", err, rest)
			}
			cur.Decreases = &Clause{Kind: "decreases", Text: rest, Expr: e, File: l.file, Line: l.line}
		case "props":
			cur.Props = append(cur.Props, splitNames(rest)...)
		case "trusted":
			cur.Trusted = true
		case "inline":
			cur.Inline = true
		case "loop":
			// loop N invariant e | loop N decreases e
			fs := strings.SplitN(rest, " ", 3)
			if len(fs) < 3 {
				return errf(l, "bad loop clause")
			}
			n, err := strconv.Atoi(fs[0])
			if err != nil {
				return errf(l, "bad loop ordinal")
			}
			text := strings.TrimSpace(fs[2])
			var tags []string
			if m := reTags.FindStringSubmatch(text); m != nil {
				for _, t := range strings.Split(m[1], ",") {
					tags = append(tags, strings.TrimSpace(t))
				}
				text = text[len(m[0]):]
			}
			e, err := parseSpecExpr(text)
			if err != nil {
				return errf(l, "%v in %q", err, text)
			}
			c := &Clause{Kind: fs[1], Text: text, Expr: e, Tags: tags, File: l.file, Line: l.line}
			switch fs[1] {
			case "invariant":
				cur.LoopInv[n] = append(cur.LoopInv[n], c)
			case "decreases":
				cur.LoopDec[n] = c
			default:
				return errf(l, "bad loop clause kind %q", fs[1])
			}
		case "use":
			for _, part := range splitTopLevel(rest, ',') {
				part = strings.TrimSpace(part)
				e, err := parseSpecExpr(part)
				if err != nil {
					return errf(l, "%v in %q", err, part)
				}
				cur.Uses = append(cur.Uses, &Clause{Kind: "use", Text: part, Expr: e, File: l.file, Line: l.line})
			}
		case "reveal":
			if cur.Reveal == nil {
				cur.Reveal = map[string]bool{}
			}
			for _, n := range splitNames(rest) {
				cur.Reveal[n] = true
			}
		case "spec":
			opaque := false
			if strings.HasPrefix(rest, "opaque ") {
				opaque = true
				rest = strings.TrimSpace(strings.TrimPrefix(rest, "opaque "))
			}
			sf, err := P.parseSpecDecl(rest, sc)
			if err == nil {
				sf.Opaque = opaque
			}
			if err != nil {
				return errf(l, "%v", err)
			}
			sf.File, sf.Line = l.file, l.line
			if _, dup := P.Specs[sf.Name]; dup {
				return errf(l, "duplicate spec %s", sf.Name)
			}
			P.Specs[sf.Name] = sf
			cur = nil
		case "axiom":
			// axiom name(x T, y U): expr
			i := strings.Index(rest, ":")
			if i < 0 {
				return errf(l, "bad axiom")
			}
			head, body := strings.TrimSpace(rest[:i]), strings.TrimSpace(rest[i+1:])
			ax := &Axiom{Scope: sc, File: l.file, Line: l.line, Text: body, Lib: lib}
			j := strings.Index(head, "(")
			if j < 0 {
				ax.Name = head
			} else {
				ax.Name = head[:j]
				ps, err := parseParamList(strings.TrimSuffix(head[j+1:], ")"), sc, P)
				if err != nil {
					return errf(l, "%v", err)
				}
				ax.Params = ps
			}
			e, err := parseSpecExpr(body)
			if err != nil {
				return errf(l, "%v in %q", err, body)
			}
			ax.Body = e
			P.Axioms = append(P.Axioms, ax)
			cur = nil
		case "iface":
			// iface (<iface>).<Method> = specName
			fs := strings.Split(rest, "=")
			if len(fs) != 2 {
				return errf(l, "bad iface clause")
			}
			key := canonFuncRefScoped(strings.TrimSpace(fs[0]), pkgPath, sc, P)
			rhs := strings.Fields(fs[1])
			is := &IfaceSpec{Key: key, Spec: rhs[0]}
			if len(rhs) == 3 && rhs[1] == "requires" {
				is.Requires = rhs[2]
			}
			P.Ifaces[key] = is
			cur = nil
		case "typeinv":
			// typeinv <type> (x): expr     |   typeinv <maptype> (m, k): expr
			i := strings.Index(rest, "(")
			j := strings.Index(rest, "):")
			if i < 0 || j < i {
				return errf(l, "bad typeinv")
			}
			t, err := resolveTypeText(strings.TrimSpace(rest[:i]), sc, P)
			if err != nil {
				return errf(l, "%v", err)
			}
			body := strings.TrimSpace(rest[j+2:])
			e, err := parseSpecExpr(body)
			if err != nil {
				return errf(l, "%v in %q", err, body)
			}
			ti := &TypeInv{Key: types.TypeString(t, nil), Vars: splitNames(rest[i+1 : j]), Type: t, Expr: e, Text: body, Scope: sc}
			if !lib {
				return errf(l, "typeinv is only allowed in library specs (it is an assumption)")
			}
			P.TypeInvs[ti.Key] = append(P.TypeInvs[ti.Key], ti)
			cur = nil
		case "global":
			// global <pkgvar> : <expr over the variable name>   (constant-global fact, checked syntactically)
			i := strings.Index(rest, ":")
			if i < 0 {
				return errf(l, "bad global clause")
			}
			name := strings.TrimSpace(rest[:i])
			body := strings.TrimSpace(rest[i+1:])
			e, err := parseSpecExpr(body)
			if err != nil {
				return errf(l, "%v in %q", err, body)
			}
			key := pkgPath + "." + name
			if j := strings.Index(name, "."); j > 0 {
				if pkg := sc.Aliases[name[:j]]; pkg != nil {
					key = pkg.Path() + name[j:]
				}
			}
			P.Globals[key] = &GlobalFact{Key: key, Expr: e, Text: body, Scope: sc, Lib: lib}
			cur = nil
		default:
			return errf(l, "unknown clause %q", w)
		}
	}
	return nil
}

// canonFuncRef turns "(*T).M" / "F" / "(*pkg/path.T).M" into the ssa canonical name.
func canonFuncRef(ref string, pkgPath string) string {
	qual := func(t string) string {
		if pkgPath == "" || strings.Contains(t, ".") {
			return t
		}
		return pkgPath + "." + t
	}
	if strings.HasPrefix(ref, "(") {
		i := strings.Index(ref, ")")
		recv := ref[1:i]
		rest := ref[i+1:]
		star := ""
		if strings.HasPrefix(recv, "*") {
			star, recv = "*", recv[1:]
		}
		return "(" + star + qual(recv) + ")" + rest
	}
	return qual(ref)
}

// canonFuncRefScoped resolves receiver types and package aliases through the scope first.
func canonFuncRefScoped(ref string, pkgPath string, sc *Scope, P *Program) string {
	if strings.HasPrefix(ref, "(") {
		i := strings.Index(ref, ")")
		if i > 0 {
			if t, err := resolveTypeText(ref[1:i], sc, P); err == nil {
				return "(" + types.TypeString(t, nil) + ")" + ref[i+1:]
			}
		}
	} else if j := strings.Index(ref, "."); j > 0 && !strings.Contains(ref[:j], "/") {
		if pkg := sc.Aliases[ref[:j]]; pkg != nil {
			return pkg.Path() + ref[j:]
		}
	}
	return canonFuncRef(ref, pkgPath)
}

func parseFuncHeader(s string, pkgPath string, sc *Scope, P *Program) (*FuncContract, error) {
	s = strings.TrimSpace(s)
	// function reference ends at the "(" that starts the parameter list: the first "(" after the name.
	i := 0
	if strings.HasPrefix(s, "(") {
		i = strings.Index(s, ")") + 1
	}
	j := strings.Index(s[i:], "(")
	if j < 0 {
		return nil, fmt.Errorf("bad func header %q", s)
	}
	ref := s[:i+j]
	rest := s[i+j:]
	k := strings.Index(rest, ")")
	if k < 0 {
		return nil, fmt.Errorf("bad func header %q", s)
	}
	fc := &FuncContract{Key: canonFuncRefScoped(ref, pkgPath, sc, P)}
	fc.Params = splitNames(rest[1:k])
	rest = strings.TrimSpace(rest[k+1:])
	if strings.HasPrefix(rest, "(") && strings.HasSuffix(rest, ")") {
		fc.Results = splitNames(rest[1 : len(rest)-1])
	} else if rest != "" {
		return nil, fmt.Errorf("bad func header results %q", rest)
	}
	return fc, nil
}

func splitNames(s string) []string {
	var out []string
	for _, p := range strings.Split(s, ",") {
		p = strings.TrimSpace(p)
		if p != "" {
			out = append(out, p)
		}
	}
	return out
}

// splitTopLevel splits at sep outside parentheses/brackets/strings.
func splitTopLevel(s string, sep byte) []string {
	var out []string
	depth, start := 0, 0
	inStr := byte(0)
	for i := 0; i < len(s); i++ {
		c := s[i]
		if inStr != 0 {
			if c == '\\' && inStr == '"' {
				i++
			} else if c == inStr {
				inStr = 0
			}
			continue
		}
		switch c {
		case '"', '`':
			inStr = c
		case '(', '[', '{':
			depth++
		case ')', ']', '}':
			depth--
		default:
			if c == sep && depth == 0 {
				out = append(out, s[start:i])
				start = i + 1
			}
		}
	}
	out = append(out, s[start:])
	return out
}

// rewriteImplies turns top-level "a ==> b" (right associative, lowest precedence) into implies(a, b),
// recursively inside parentheses and call arguments.
func rewriteImplies(s string) string {
	// find top-level "==>"
	depth := 0
	inStr := byte(0)
	for i := 0; i+2 < len(s); i++ {
		c := s[i]
		if inStr != 0 {
			if c == '\\' && inStr == '"' {
				i++
			} else if c == inStr {
				inStr = 0
			}
			continue
		}
		switch c {
		case '"', '`':
			inStr = c
		case '(', '[', '{':
			depth++
		case ')', ']', '}':
			depth--
		case '=':
			if depth == 0 && s[i:i+3] == "==>" {
				return "implies(" + rewriteImplies(s[:i]) + ", " + rewriteImplies(s[i+3:]) + ")"
			}
		}
	}
	// descend into bracketed groups
	var sb strings.Builder
	inStr = 0
	for i := 0; i < len(s); i++ {
		c := s[i]
		if inStr != 0 {
			sb.WriteByte(c)
			if c == '\\' && inStr == '"' && i+1 < len(s) {
				i++
				sb.WriteByte(s[i])
			} else if c == inStr {
				inStr = 0
			}
			continue
		}
		if c == '"' || c == '`' {
			inStr = c
			sb.WriteByte(c)
			continue
		}
		if c == '(' || c == '[' || c == '{' {
			// find the matching close
			d := 0
			j := i
			is := byte(0)
			for ; j < len(s); j++ {
				cj := s[j]
				if is != 0 {
					if cj == '\\' && is == '"' {
						j++
					} else if cj == is {
						is = 0
					}
					continue
				}
				if cj == '"' || cj == '`' {
					is = cj
				} else if cj == '(' || cj == '[' || cj == '{' {
					d++
				} else if cj == ')' || cj == ']' || cj == '}' {
					d--
					if d == 0 {
						break
					}
				}
			}
			if j >= len(s) {
				sb.WriteString(s[i:])
				return sb.String()
			}
			sb.WriteByte(c)
			inner := s[i+1 : j]
			parts := splitTopLevel(inner, ',')
			for k, p := range parts {
				if k > 0 {
					sb.WriteByte(',')
				}
				sb.WriteString(rewriteImplies(p))
			}
			sb.WriteByte(s[j])
			i = j
			continue
		}
		sb.WriteByte(c)
	}
	return sb.String()
}

func parseSpecExpr(text string) (ast.Expr, error) {
	t := rewriteImplies(text)
	t = replaceGhost(t)
	e, err := parser.ParseExpr(t)
	if err != nil {
		return nil, err
	}
	return e, nil
}

// spec name(a T, b U) R = body      |   spec name(a T) R
func (P *Program) parseSpecDecl(s string, sc *Scope) (*SpecFunc, error) {
	i := strings.Index(s, "(")
	if i < 0 {
		return nil, fmt.Errorf("bad spec %q", s)
	}
	name := strings.TrimSpace(s[:i])
	// matching paren
	d, j := 0, i
	for ; j < len(s); j++ {
		if s[j] == '(' {
			d++
		} else if s[j] == ')' {
			d--
			if d == 0 {
				break
			}
		}
	}
	params, err := parseParamList(s[i+1:j], sc, P)
	if err != nil {
		return nil, fmt.Errorf("spec %s: %v", name, err)
	}
	rest := strings.TrimSpace(s[j+1:])
	var resT, body string
	if k := strings.Index(rest, " = "); k >= 0 {
		resT, body = strings.TrimSpace(rest[:k]), strings.TrimSpace(rest[k+3:])
	} else if strings.HasSuffix(rest, " =") {
		return nil, fmt.Errorf("spec %s: empty body", name)
	} else {
		resT = rest
	}
	rt, err := resolveTypeText(resT, sc, P)
	if err != nil {
		return nil, fmt.Errorf("spec %s result: %v", name, err)
	}
	sf := &SpecFunc{Name: name, Params: params, Result: rt, Scope: sc, BodyText: body}
	if body != "" {
		e, err := parseSpecExpr(body)
		if err != nil {
			return nil, fmt.Errorf("spec %s body: %v", name, err)
		}
		sf.Body = e
	}
	return sf, nil
}

func parseParamList(s string, sc *Scope, P *Program) ([]SpecParam, error) {
	var out []SpecParam
	parts := splitTopLevel(s, ',')
	// Go-style grouping: "a, b string" gives both a and b type string
	var pendingNames []string
	for _, p := range parts {
		p = strings.TrimSpace(p)
		if p == "" {
			continue
		}
		fs := strings.SplitN(p, " ", 2)
		if len(fs) == 1 {
			pendingNames = append(pendingNames, fs[0])
			continue
		}
		t, err := resolveTypeText(strings.TrimSpace(fs[1]), sc, P)
		if err != nil {
			return nil, err
		}
		for _, n := range pendingNames {
			out = append(out, SpecParam{n, t})
		}
		pendingNames = nil
		out = append(out, SpecParam{fs[0], t})
	}
	if len(pendingNames) > 0 {
		return nil, fmt.Errorf("parameters without type: %v", pendingNames)
	}
	return out, nil
}

func resolveTypeText(s string, sc *Scope, P *Program) (types.Type, error) {
	e, err := parser.ParseExpr(s)
	if err != nil {
		return nil, fmt.Errorf("type %q: %v", s, err)
	}
	return resolveTypeExpr(e, sc, P)
}

func resolveTypeExpr(e ast.Expr, sc *Scope, P *Program) (types.Type, error) {
	switch t := e.(type) {
	case *ast.Ident:
		if o := types.Universe.Lookup(t.Name); o != nil {
			if tn, ok := o.(*types.TypeName); ok {
				return tn.Type(), nil
			}
		}
		if sc.Pkg != nil {
			if o := sc.Pkg.Scope().Lookup(t.Name); o != nil {
				if tn, ok := o.(*types.TypeName); ok {
					return tn.Type(), nil
				}
			}
		}
		return nil, fmt.Errorf("unknown type %s", t.Name)
	case *ast.SelectorExpr:
		id, ok := t.X.(*ast.Ident)
		if !ok {
			return nil, fmt.Errorf("bad qualified type")
		}
		pkg := sc.Aliases[id.Name]
		if pkg == nil {
			return nil, fmt.Errorf("unknown package alias %s", id.Name)
		}
		o := pkg.Scope().Lookup(t.Sel.Name)
		if tn, ok := o.(*types.TypeName); ok {
			return tn.Type(), nil
		}
		return nil, fmt.Errorf("unknown type %s.%s", id.Name, t.Sel.Name)
	case *ast.StarExpr:
		el, err := resolveTypeExpr(t.X, sc, P)
		if err != nil {
			return nil, err
		}
		return types.NewPointer(el), nil
	case *ast.ArrayType:
		if t.Len != nil {
			return nil, fmt.Errorf("array types unsupported in specs")
		}
		el, err := resolveTypeExpr(t.Elt, sc, P)
		if err != nil {
			return nil, err
		}
		return types.NewSlice(el), nil
	case *ast.InterfaceType:
		return types.NewInterfaceType(nil, nil), nil
	case *ast.StructType:
		if t.Fields == nil || len(t.Fields.List) == 0 {
			return types.NewStruct(nil, nil), nil
		}
		return nil, fmt.Errorf("struct types with fields unsupported in specs")
	case *ast.ParenExpr:
		return resolveTypeExpr(t.X, sc, P)
	case *ast.MapType:
		k, err := resolveTypeExpr(t.Key, sc, P)
		if err != nil {
			return nil, err
		}
		v, err := resolveTypeExpr(t.Value, sc, P)
		if err != nil {
			return nil, err
		}
		return types.NewMap(k, v), nil
	}
	return nil, fmt.Errorf("unsupported type expression %T", e)
}

// replaceGhost rewrites $name to ghost_name outside string literals.
func replaceGhost(s string) string {
	var sb strings.Builder
	inStr := byte(0)
	for i := 0; i < len(s); i++ {
		c := s[i]
		if inStr != 0 {
			sb.WriteByte(c)
			if c == '\\' && inStr == '"' && i+1 < len(s) {
				i++
				sb.WriteByte(s[i])
			} else if c == inStr {
				inStr = 0
			}
			continue
		}
		if c == '"' || c == '`' {
			inStr = c
			sb.WriteByte(c)
			continue
		}
		if c == '$' {
			sb.WriteString("ghost_")
			continue
		}
		sb.WriteByte(c)
	}
	return sb.String()
}
