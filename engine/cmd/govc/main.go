package main

import (
	"encoding/json"
	"flag"
	"fmt"
	"os"
	"path/filepath"
	"sort"
	"strings"
	"time"
)

func usage() {
	fmt.Fprintln(os.Stderr, `usage:
  govc verify  -repo /repo -lib /verif/lib -property C08 [-tier quick|thorough] [-evidence file] [-known file] [-replays dir]
  govc dump    -repo /repo -lib /verif/lib -func <substring> [-obl <substring>]   (print obligations / scripts)
  govc list    -repo /repo -lib /verif/lib                                         (contracts and properties)
  govc replay  -file <replay.json>                                                  (re-discharge the obligation the file names on the current tree)`)
	os.Exit(2)
}

func main() {
	if len(os.Args) < 2 {
		usage()
	}
	cmd := os.Args[1]
	fs := flag.NewFlagSet(cmd, flag.ExitOnError)
	repo := fs.String("repo", "/repo", "repository under verification")
	lib := fs.String("lib", "/verif/lib", "assumed library contracts")
	prop := fs.String("property", "", "property id")
	tier := fs.String("tier", "quick", "quick or thorough")
	evidence := fs.String("evidence", "", "evidence file to write")
	known := fs.String("known", "/verif/known_findings.json", "known findings")
	replays := fs.String("replays", "/verif/replays", "replay directory")
	fn := fs.String("func", "", "function filter (dump)")
	obl := fs.String("obl", "", "obligation filter (dump)")
	keep := fs.String("keep", "", "keep SMT scripts in this directory")
	file := fs.String("file", "", "replay file written by a failed check (replay)")
	all := fs.Bool("all", false, "verify every function under contract (ignores -property)")
	sweep := fs.Bool("sweep", false, "include the zero-annotation safety sweep")
	_ = fs.Parse(os.Args[2:])

	t0 := time.Now()
	P, err := loadProgram(*repo, *lib)
	if err != nil {
		fmt.Fprintln(os.Stderr, "govc: load:", err)
		os.Exit(2)
	}
	P.markRecursive()
	w := newWorld(P)
	if err := w.initPure(); err != nil {
		fmt.Fprintln(os.Stderr, "govc:", err)
		os.Exit(2)
	}
	if err := w.compileAxioms(); err != nil {
		fmt.Fprintln(os.Stderr, "govc:", err)
		os.Exit(2)
	}
	loadS := time.Since(t0).Seconds()

	switch cmd {
	case "list":
		for _, k := range sortedKeys(P.Contracts) {
			fc := P.Contracts[k]
			if fc.Lib || fc.Behaviour {
				continue
			}
			fmt.Printf("%-90s props=%v\n", shortTypeName(k), fc.propSet())
		}
	case "dump":
		runDump(w, *fn, *obl, *keep)
	case "verify":
		os.Exit(runVerify(w, verifyOpts{prop: *prop, tier: *tier, evidence: *evidence, known: *known, replays: *replays,
			keep: *keep, all: *all, sweep: *sweep, loadS: loadS, repo: *repo}))
	case "replay":
		// re-discharge the one obligation a replay file names, against /repo's current working tree
		b, err := os.ReadFile(*file)
		if err != nil {
			fmt.Fprintln(os.Stderr, "govc:", err)
			os.Exit(2)
		}
		var rec struct {
			Property   string `json:"property"`
			Obligation string `json:"obligation"`
			Clause     string `json:"clause"`
			Where      string `json:"where"`
		}
		if err := json.Unmarshal(b, &rec); err != nil || rec.Obligation == "" {
			fmt.Fprintln(os.Stderr, "govc: not a replay file:", *file)
			os.Exit(2)
		}
		fmt.Printf("replaying obligation %s [%s] %s\n", rec.Obligation, rec.Where, rec.Clause)
		d := filepath.Join(filepath.Dir(filepath.Dir(*file)), ".rerun")
		code := runVerify(w, verifyOpts{prop: rec.Property, tier: *tier, known: *known, replays: d, all: rec.Property == "ALL",
			loadS: loadS, repo: *repo, onlyObl: rec.Obligation})
		os.Exit(code)
	default:
		usage()
	}
}

// propSet lists the properties a contract carries clauses for.
// ownsUntagged: does property p own the untagged obligation of the given kind in this function?  A function that
// belongs to p through an explicit props clause or a tagged clause is owned entirely; one that belongs to it only
// through "fileprops p:kinds" contributes the listed kinds.
func (fc *FuncContract) ownsUntagged(p, kind string) bool {
	if fc == nil {
		return true
	}
	for _, q := range fc.fullPropSet() {
		if q == p {
			return true
		}
	}
	for _, k := range fc.PropKinds[p] {
		if strings.HasPrefix(kind, k) {
			return true
		}
	}
	return len(fc.PropKinds[p]) == 0
}

func (fc *FuncContract) propSet() []string {
	out := fc.fullPropSet()
	have := map[string]bool{}
	for _, p := range out {
		have[p] = true
	}
	var extra []string
	for p := range fc.PropKinds {
		if !have[p] {
			extra = append(extra, p)
		}
	}
	sort.Strings(extra)
	return append(out, extra...)
}

func (fc *FuncContract) fullPropSet() []string {
	set := map[string]bool{}
	for _, p := range fc.Props {
		set[p] = true
	}
	for _, c := range fc.Ensures {
		for _, t := range c.Tags {
			set[t] = true
		}
	}
	for _, c := range fc.AtCalls {
		for _, t := range c.Tags {
			set[t] = true
		}
	}
	for _, c := range fc.Checks {
		for _, t := range c.Tags {
			set[t] = true
		}
	}
	for _, c := range fc.Requires {
		for _, t := range c.Tags {
			set[t] = true
		}
	}
	for _, cs := range fc.LoopInv {
		for _, c := range cs {
			for _, t := range c.Tags {
				set[t] = true
			}
		}
	}
	out := sortedKeys(set)
	sort.Strings(out)
	return out
}

func runDump(w *World, fnFilter, oblFilter, keep string) {
	P := w.P
	dir := keep
	if dir == "" {
		d, _ := os.MkdirTemp("", "govc-dump-")
		dir = d
		defer os.RemoveAll(d)
	} else {
		_ = os.MkdirAll(dir, 0755)
	}
	var obls []*Obligation
	for _, k := range sortedKeys(P.Funcs) {
		f := P.Funcs[k]
		if f.Blocks == nil || !strings.Contains(k, fnFilter) || !strings.Contains(k, repoMod) {
			continue
		}
		fc := P.Contracts[k]
		if fc != nil && fc.Inline {
			continue
		}
		r := w.verifyFunction(f, fc)
		fmt.Printf("== %s: %d obligations", r.Name, len(r.Obls))
		if r.Unsupported != "" {
			fmt.Printf("  UNSUPPORTED: %s", r.Unsupported)
		}
		fmt.Println()
		for _, o := range r.Obls {
			if strings.Contains(o.Name, oblFilter) {
				obls = append(obls, o)
			}
		}
	}
	solveAll(w, obls, 10, 2, 0, dir, false)
	for _, o := range obls {
		status := o.Result
		if o.MustFail {
			if o.Result == "unsat" {
				status = "VACUOUS(unsat)"
			} else {
				status = "ok(" + o.Result + ")"
			}
		}
		fmt.Printf("%-8s %-70s %s %dms [%s] %s\n", status, o.Name, o.Solver, o.Ms, o.Where, o.Clause)
		if o.Result != "unsat" && !o.MustFail || o.Result == "error" {
			m := o.Model
			if len(m) > 1500 {
				m = m[:1500]
			}
			fmt.Println("    ", strings.ReplaceAll(strings.TrimSpace(m), "\n", "\n     "))
		}
	}
	for k := range w.uncontracted {
		fmt.Println("uncontracted callee:", k)
	}
}
