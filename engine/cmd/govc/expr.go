package main

import (
	"fmt"
	"go/ast"
	"go/constant"
	"go/token"
	"go/types"
	"strconv"
	"strings"
)

// TV is a translated expression: an SMT term plus the Go type it denotes.
type TV struct {
	T  *Term
	Ty types.Type
}

// HeapView gives the current version of each heap variable.
type HeapView interface {
	Get(name, sort string) *Term
}

// Env is the context in which a contract expression is translated.
type Env struct {
	w      *World
	vars   map[string]TV
	state  HeapView
	old    HeapView
	entry  HeapView
	scope  *Scope
	parent *Env
	depth  int
	where  string
	// name resolution fallback (loop invariants: source variables)
	resolve func(name string) (TV, bool)
	// views: inside the body of a recursive spec function, slice / map parameters are read through the
	// backing array passed along with them (not through the whole heap)
	views map[*Term]*paramView
	// vis: inside a loop invariant of a range over a map, the set of keys yielded so far
	vis *Term
}

type paramView struct {
	arr *Term // slice: backing array
	has *Term // map: key set
	val *Term // map: values
}

func (e *Env) viewOf(t *Term) *paramView {
	for x := e; x != nil; x = x.parent {
		if pv, ok := x.views[t]; ok {
			return pv
		}
	}
	return nil
}

type specErr struct{ msg string }

func (e *Env) fail(format string, a ...any) {
	panic(specErr{fmt.Sprintf("%s: %s", e.where, fmt.Sprintf(format, a...))})
}

func (e *Env) child() *Env {
	c := *e
	c.vars = map[string]TV{}
	c.parent = e
	return &c
}

func (e *Env) lookup(name string) (TV, bool) {
	for x := e; x != nil; x = x.parent {
		if v, ok := x.vars[name]; ok {
			return v, true
		}
	}
	for x := e; x != nil; x = x.parent {
		if x.resolve != nil {
			if v, ok := x.resolve(name); ok {
				return v, true
			}
		}
	}
	return TV{}, false
}

var (
	tyInt    = types.Typ[types.Int]
	tyBool   = types.Typ[types.Bool]
	tyString = types.Typ[types.String]
	tyNil    = types.Typ[types.UntypedNil]
	tyAny    = types.NewInterfaceType(nil, nil)
)

func (e *Env) sortOf(t types.Type) string { return e.w.sortOf(t) }

// heap accessors ------------------------------------------------------------------------------

func heapFieldName(s *StructSort, i int) string { return "H." + s.Name + "." + s.Fields[i].Name }
func heapBoxName(sort string) string             { return "B." + sort }
// heapSliceNameT names the heap variable holding the backing arrays of slices with element type t.
// It is keyed by the Go element type (not the SMT sort): Go's type system keeps []*A and []*B apart.
func heapSliceNameT(t types.Type) string {
	if it, ok := t.Underlying().(*types.Interface); ok && it.NumMethods() == 0 {
		if _, named := t.(*types.Named); !named {
			if gWorld != nil {
				gWorld.sliceKeyElem["S.any"] = t
			}
			return "S.any"
		}
	}
	name := "S." + mangle(shortTypeName(types.TypeString(t, nil)))
	if gWorld != nil {
		gWorld.sliceKeyElem[name] = t
	}
	return name
}

var gWorld *World

// heapSortOfName derives the SMT sort of a heap variable from its name (for variables that a loop or
// callee writes before this function has touched them).
func (w *World) heapSortOfName(name string) string {
	if so, ok := w.heapSorts[name]; ok {
		return so
	}
	if so, ok := ghostSorts[name]; ok {
		return so
	}
	switch {
	case name == "$cnt" || strings.HasPrefix(name, "$fx."):
		return "Int"
	case name == "Bld":
		return arraySort("Int", "String")
	case name == "S.any":
		return arraySort("Int", arraySort("Int", "Any"))
	case strings.HasPrefix(name, "S."):
		if t, ok := w.sliceKeyElem[name]; ok {
			return arraySort("Int", arraySort("Int", w.sortOf(t)))
		}
	case strings.HasPrefix(name, "B."):
		return arraySort("Int", strings.TrimPrefix(name, "B."))
	case strings.HasPrefix(name, "H."):
		rest := strings.TrimPrefix(name, "H.")
		if i := strings.Index(rest, "."); i > 0 {
			if s, ok := w.bySortName[rest[:i]]; ok {
				if j := s.fieldIndex(rest[i+1:]); j >= 0 {
					return arraySort("Int", s.Fields[j].Sort)
				}
			}
		}
	case strings.HasPrefix(name, "M."):
		parts := strings.Split(strings.TrimPrefix(name, "M."), ".")
		if len(parts) == 3 {
			if parts[2] == "has" {
				return arraySort("Int", arraySort(parts[0], "Bool"))
			}
			return arraySort("Int", arraySort(parts[0], parts[1]))
		}
	case strings.HasPrefix(name, "G."):
		if so, ok := w.globalSorts[name]; ok {
			return so
		}
	}
	return ""
}

func (e *Env) heap(h HeapView, name, sort string) *Term {
	if old, ok := e.w.heapSorts[name]; ok && old != sort {
		panic(fmt.Sprintf("heap variable %s used with sorts %s and %s", name, old, sort))
	}
	e.w.heapSorts[name] = sort
	return h.Get(name, sort)
}

// loadField reads field i of the struct pointed to by ref.
func (e *Env) loadField(h HeapView, s *StructSort, i int, ref *Term) *Term {
	return Select(e.heap(h, heapFieldName(s, i), arraySort("Int", s.Fields[i].Sort)), ref)
}

// loadStruct builds the struct value stored at ref.
func (e *Env) loadStruct(h HeapView, s *StructSort, ref *Term) *Term {
	if len(s.Fields) == 0 {
		return Leaf(s.ctor())
	}
	args := make([]*Term, len(s.Fields))
	for i := range s.Fields {
		args[i] = e.loadField(h, s, i, ref)
	}
	return A(s.ctor(), args...)
}

func (e *Env) loadPtr(h HeapView, ref *Term, pointee types.Type) *Term {
	if isBuilderType(pointee) {
		return Select(e.heap(h, "Bld", arraySort("Int", "String")), ref)
	}
	if _, ok := pointee.Underlying().(*types.Struct); ok {
		return e.loadStruct(h, e.w.structSort(pointee), ref)
	}
	so := e.sortOf(pointee)
	return Select(e.heap(h, heapBoxName(so), arraySort("Int", so)), ref)
}

func (e *Env) sliceElem(h HeapView, sl *Term, idx *Term, elemT types.Type) *Term {
	elemSort := e.sortOf(elemT)
	if pv := e.viewOf(sl); pv != nil && pv.arr != nil {
		return Select(pv.arr, Sidx(A("s_off", sl), idx))
	}
	arr := Select(e.heap(h, heapSliceNameT(elemT), arraySort("Int", arraySort("Int", elemSort))), A("s_base", sl))
	return Select(arr, Sidx(A("s_off", sl), idx))
}

func isBuilderType(t types.Type) bool {
	s := types.TypeString(t, nil)
	return s == "strings.Builder" || s == "bytes.Buffer"
}

// ---------------------------------------------------------------------------------------------

func (e *Env) tr(x ast.Expr) TV {
	switch n := x.(type) {
	case *ast.ParenExpr:
		return e.tr(n.X)
	case *ast.BasicLit:
		switch n.Kind {
		case token.INT:
			v, err := strconv.ParseInt(n.Value, 0, 64)
			if err != nil {
				e.fail("bad int literal %s", n.Value)
			}
			return TV{IntLit(v), tyInt}
		case token.STRING:
			s, err := strconv.Unquote(n.Value)
			if err != nil {
				e.fail("bad string literal %s", n.Value)
			}
			return TV{StrLit(s), tyString}
		case token.CHAR:
			s, err := strconv.Unquote(n.Value)
			if err != nil || len(s) == 0 {
				e.fail("bad char literal")
			}
			return TV{IntLit(int64([]rune(s)[0])), types.Typ[types.Rune]}
		}
		e.fail("unsupported literal %s", n.Value)
	case *ast.Ident:
		return e.trIdent(n)
	case *ast.UnaryExpr:
		switch n.Op {
		case token.NOT:
			return TV{Not(e.trBool(n.X)), tyBool}
		case token.SUB:
			v := e.tr(n.X)
			return TV{A("-", v.T), v.Ty}
		}
		e.fail("unsupported unary %s", n.Op)
	case *ast.StarExpr:
		v := e.tr(n.X)
		pt, ok := v.Ty.Underlying().(*types.Pointer)
		if !ok {
			e.fail("deref of non-pointer %s", types.ExprString(n.X))
		}
		return TV{e.loadPtr(e.state, v.T, pt.Elem()), pt.Elem()}
	case *ast.BinaryExpr:
		return e.trBinary(n)
	case *ast.SelectorExpr:
		return e.trSelector(n)
	case *ast.IndexExpr:
		return e.trIndex(n)
	case *ast.SliceExpr:
		return e.trSlice(n)
	case *ast.CallExpr:
		return e.trCall(n)
	case *ast.CompositeLit:
		return e.trComposite(n)
	}
	e.fail("unsupported expression %T: %s", x, types.ExprString(x))
	return TV{}
}

func (e *Env) trBool(x ast.Expr) *Term {
	v := e.tr(x)
	if e.sortOf(v.Ty) != "Bool" {
		e.fail("expected bool: %s", types.ExprString(x))
	}
	return v.T
}

func (e *Env) trIdent(n *ast.Ident) TV {
	switch n.Name {
	case "true":
		return TV{tTrue, tyBool}
	case "false":
		return TV{tFalse, tyBool}
	case "nil":
		return TV{IntLit(0), tyNil}
	}
	if v, ok := e.lookup(n.Name); ok {
		return v
	}
	if n.Name == "ghost_cnt" {
		return TV{e.heap(e.state, "$cnt", "Int"), tyInt}
	}
	// package-level constant of the contract's package
	if e.scope != nil && e.scope.Pkg != nil {
		if o := e.scope.Pkg.Scope().Lookup(n.Name); o != nil {
			if c, ok := o.(*types.Const); ok {
				return e.constTV(c)
			}
			if v, ok := o.(*types.Var); ok {
				return e.globalTV(v)
			}
		}
	}
	// zero-argument spec function
	if sf, ok := e.w.P.Specs[n.Name]; ok && len(sf.Params) == 0 {
		return e.applySpec(sf, nil)
	}
	e.fail("unknown identifier %s", n.Name)
	return TV{}
}

func (e *Env) globalTV(v *types.Var) TV {
	name := "G." + v.Pkg().Path() + "." + v.Name()
	so := e.sortOf(v.Type())
	return TV{e.heap(e.state, name, so), v.Type()}
}

func (e *Env) constTV(c *types.Const) TV {
	val := c.Val()
	switch val.Kind() {
	case constant.String:
		return TV{StrLit(constant.StringVal(val)), c.Type()}
	case constant.Int:
		i, _ := constant.Int64Val(val)
		return TV{IntLit(i), c.Type()}
	case constant.Bool:
		if constant.BoolVal(val) {
			return TV{tTrue, c.Type()}
		}
		return TV{tFalse, c.Type()}
	}
	e.fail("unsupported constant %s", c.Name())
	return TV{}
}

func (e *Env) trBinary(n *ast.BinaryExpr) TV {
	switch n.Op {
	case token.LAND:
		return TV{And(e.trBool(n.X), e.trBool(n.Y)), tyBool}
	case token.LOR:
		return TV{Or(e.trBool(n.X), e.trBool(n.Y)), tyBool}
	case token.EQL:
		return TV{e.equal(e.tr(n.X), e.tr(n.Y)), tyBool}
	case token.NEQ:
		return TV{Not(e.equal(e.tr(n.X), e.tr(n.Y))), tyBool}
	}
	a, b := e.tr(n.X), e.tr(n.Y)
	sa := e.sortOf(a.Ty)
	switch n.Op {
	case token.ADD:
		if sa == "String" {
			return TV{A("str.++", a.T, b.T), a.Ty}
		}
		return TV{Add(a.T, b.T), a.Ty}
	case token.SUB:
		return TV{Sub(a.T, b.T), a.Ty}
	case token.MUL:
		return TV{A("*", a.T, b.T), a.Ty}
	case token.QUO:
		return TV{A("div", a.T, b.T), a.Ty}
	case token.REM:
		return TV{A("mod", a.T, b.T), a.Ty}
	case token.LSS:
		if sa == "String" {
			return TV{A("str.<", a.T, b.T), tyBool}
		}
		return TV{Lt(a.T, b.T), tyBool}
	case token.LEQ:
		if sa == "String" {
			return TV{A("str.<=", a.T, b.T), tyBool}
		}
		return TV{Le(a.T, b.T), tyBool}
	case token.GTR:
		if sa == "String" {
			return TV{A("str.<", b.T, a.T), tyBool}
		}
		return TV{Lt(b.T, a.T), tyBool}
	case token.GEQ:
		if sa == "String" {
			return TV{A("str.<=", b.T, a.T), tyBool}
		}
		return TV{Le(b.T, a.T), tyBool}
	}
	e.fail("unsupported binary operator %s", n.Op)
	return TV{}
}

func isNilTV(v TV) bool {
	b, ok := v.Ty.(*types.Basic)
	return ok && b.Kind() == types.UntypedNil
}

// equal builds Go's == for two translated values (nil handling, auto-boxing).
func (e *Env) equal(a, b TV) *Term {
	if isNilTV(a) && !isNilTV(b) {
		a, b = b, a
	}
	sa := e.sortOf(a.Ty)
	if isNilTV(b) {
		switch sa {
		case "Int":
			return Eq(a.T, IntLit(0))
		case "Slice":
			return Eq(A("s_base", a.T), IntLit(0))
		case "Any":
			return Eq(a.T, Leaf("any_nil"))
		}
		e.fail("nil comparison with sort %s", sa)
	}
	sb := e.sortOf(b.Ty)
	if sa == "Any" && sb != "Any" {
		b = TV{e.w.box(b.T, b.Ty), a.Ty}
	} else if sb == "Any" && sa != "Any" {
		a = TV{e.w.box(a.T, a.Ty), b.Ty}
	} else if sa != sb {
		e.fail("comparison of different sorts %s and %s", sa, sb)
	}
	return Eq(a.T, b.T)
}

// box converts a value of static type t into an interface value.
func (w *World) box(v *Term, t types.Type) *Term {
	so := w.sortOf(t)
	if so == "Any" {
		return v
	}
	id := IntLit(int64(w.typeID(t)))
	switch u := t.Underlying().(type) {
	case *types.Struct:
		s := w.structSort(t)
		return A("box_"+s.Name, v)
	case *types.Pointer:
		return A("box_ptr", id, v)
	case *types.Basic:
		switch so {
		case "String":
			return A("box_str", id, v)
		case "Int":
			if u.Kind() == types.UntypedNil {
				return Leaf("any_nil")
			}
			return A("box_int", id, v)
		case "Bool":
			return A("box_bool", id, v)
		}
	}
	if so == "Int" {
		return A("box_other", id, v)
	}
	// slices and other composite values: opaque identity
	f := w.ufunc("boxid_"+mangle(so), []string{so}, "Int")
	return A("box_other", id, A(f, v))
}

// isDyn builds the test "interface value x has dynamic type t".
func (w *World) isDyn(x *Term, t types.Type) *Term {
	id := IntLit(int64(w.typeID(t)))
	so := w.sortOf(t)
	switch t.Underlying().(type) {
	case *types.Struct:
		s := w.structSort(t)
		return A("(_ is box_"+s.Name+")", x)
	case *types.Pointer:
		return And(A("(_ is box_ptr)", x), Eq(A("ptag", x), id))
	case *types.Basic:
		switch so {
		case "String":
			return And(A("(_ is box_str)", x), Eq(A("stag", x), id))
		case "Int":
			return And(A("(_ is box_int)", x), Eq(A("itag", x), id))
		case "Bool":
			return And(A("(_ is box_bool)", x), Eq(A("btag", x), id))
		}
	}
	return And(A("(_ is box_other)", x), Eq(A("otag", x), id))
}

// unbox extracts the payload of dynamic type t.
func (w *World) unbox(x *Term, t types.Type) *Term {
	so := w.sortOf(t)
	switch t.Underlying().(type) {
	case *types.Struct:
		s := w.structSort(t)
		return A("un_"+s.Name, x)
	case *types.Pointer:
		return A("pref", x)
	case *types.Basic:
		switch so {
		case "String":
			return A("sval", x)
		case "Int":
			return A("ival", x)
		case "Bool":
			return A("bval", x)
		}
	}
	if so == "Int" {
		return A("oid", x)
	}
	f := w.ufunc("unboxid_"+mangle(so), []string{"Int"}, so)
	return A(f, A("oid", x))
}

func (e *Env) trSelector(n *ast.SelectorExpr) TV {
	// ghost variables: $fsw.n, $out.data, ...
	if id, ok := n.X.(*ast.Ident); ok && strings.HasPrefix(id.Name, "ghost_") && ghostSorts["$"+strings.TrimPrefix(id.Name, "ghost_")+"."+n.Sel.Name] != "" {
		name := "$" + strings.TrimPrefix(id.Name, "ghost_") + "." + n.Sel.Name
		if so, ok := ghostSorts[name]; ok {
			ty := types.Type(tyInt)
			switch so {
			case "Bool":
				ty = tyBool
			case "(Array Int String)":
				ty = types.NewMap(tyInt, tyString)
			case "(Array Int Slice)":
				ty = types.NewMap(tyInt, types.NewSlice(types.Typ[types.Byte]))
			case "(Array Int Int)":
				// $warn.sink: which *log.Logger a line was handed to
				ty = types.NewMap(tyInt, types.Typ[types.UnsafePointer])
				if lp := e.w.P.AllTypes["log"]; lp != nil {
					if o := lp.Scope().Lookup("Logger"); o != nil {
						ty = types.NewMap(tyInt, types.NewPointer(o.Type()))
					}
				}
			}
			return TV{e.heap(e.state, name, so), ty}
		}
		e.fail("unknown ghost variable %s", name)
	}
	// qualified identifier: pkg.Const / pkg.Var
	if id, ok := n.X.(*ast.Ident); ok {
		if _, bound := e.lookup(id.Name); !bound && e.scope != nil {
			if pkg := e.scope.Aliases[id.Name]; pkg != nil {
				o := pkg.Scope().Lookup(n.Sel.Name)
				switch o := o.(type) {
				case *types.Const:
					return e.constTV(o)
				case *types.Var:
					return e.globalTV(o)
				}
				e.fail("unknown qualified identifier %s.%s", id.Name, n.Sel.Name)
			}
		}
	}
	v := e.tr(n.X)
	return e.selectField(v, n.Sel.Name)
}

func (e *Env) selectField(v TV, name string) TV {
	t := v.Ty
	if pt, ok := t.Underlying().(*types.Pointer); ok {
		st, ok := pt.Elem().Underlying().(*types.Struct)
		if !ok {
			e.fail("field %s of pointer to non-struct", name)
		}
		_ = st
		s := e.w.structSort(pt.Elem())
		i := s.fieldIndex(name)
		if i < 0 {
			e.fail("no field %s in %s", name, s.GoName)
		}
		return TV{e.loadField(e.state, s, i, v.T), s.Fields[i].Type}
	}
	if _, ok := t.Underlying().(*types.Struct); ok {
		s := e.w.structSort(t)
		i := s.fieldIndex(name)
		if i < 0 {
			e.fail("no field %s in %s", name, s.GoName)
		}
		return TV{A(s.acc(i), v.T), s.Fields[i].Type}
	}
	e.fail("field %s of non-struct %s", name, t)
	return TV{}
}

func (e *Env) trIndex(n *ast.IndexExpr) TV {
	v := e.tr(n.X)
	i := e.tr(n.Index)
	switch u := v.Ty.Underlying().(type) {
	case *types.Slice:
		return TV{e.sliceElem(e.state, v.T, i.T, u.Elem()), u.Elem()}
	case *types.Basic:
		if u.Info()&types.IsString != 0 {
			return TV{A("str.to_code", A("str.at", v.T, i.T)), types.Typ[types.Byte]}
		}
	case *types.Map:
		if sel, ok := n.X.(*ast.SelectorExpr); ok {
			if id, ok := sel.X.(*ast.Ident); ok && strings.HasPrefix(id.Name, "ghost_") {
				return TV{Select(v.T, i.T), u.Elem()}
			}
		}
		ks, vs := e.sortOf(u.Key()), e.sortOf(u.Elem())
		if pv := e.viewOf(v.T); pv != nil && pv.val != nil {
			return TV{Select(pv.val, i.T), u.Elem()}
		}
		val := e.heap(e.state, "M."+ks+"."+vs+".val", arraySort("Int", arraySort(ks, vs)))
		return TV{Select(Select(val, v.T), i.T), u.Elem()}
	}
	e.fail("unsupported index on %s", v.Ty)
	return TV{}
}

func (e *Env) trSlice(n *ast.SliceExpr) TV {
	v := e.tr(n.X)
	var lo, hi *Term
	if n.Low != nil {
		lo = e.tr(n.Low).T
	} else {
		lo = IntLit(0)
	}
	switch v.Ty.Underlying().(type) {
	case *types.Basic:
		if n.High != nil {
			hi = e.tr(n.High).T
		} else {
			hi = A("str.len", v.T)
		}
		return TV{A("str.substr", v.T, lo, Sub(hi, lo)), v.Ty}
	case *types.Slice:
		if n.High != nil {
			hi = e.tr(n.High).T
		} else {
			hi = A("s_len", v.T)
		}
		return TV{A("mk_slice", A("s_base", v.T), Add(A("s_off", v.T), lo), Sub(hi, lo), Sub(A("s_cap", v.T), lo)), v.Ty}
	}
	e.fail("unsupported slice expression")
	return TV{}
}

func (e *Env) trComposite(n *ast.CompositeLit) TV {
	t, err := resolveTypeExpr(n.Type, e.scope, e.w.P)
	if err != nil {
		e.fail("%v", err)
	}
	if _, ok := t.Underlying().(*types.Struct); !ok {
		e.fail("composite literal of non-struct type")
	}
	s := e.w.structSort(t)
	args := make([]*Term, len(s.Fields))
	for i, f := range s.Fields {
		args[i] = e.w.zero(f.Sort)
	}
	for i, el := range n.Elts {
		if kv, ok := el.(*ast.KeyValueExpr); ok {
			k := kv.Key.(*ast.Ident).Name
			j := s.fieldIndex(k)
			if j < 0 {
				e.fail("no field %s in %s", k, s.GoName)
			}
			args[j] = e.coerce(e.tr(kv.Value), s.Fields[j].Type)
		} else {
			args[i] = e.coerce(e.tr(el), s.Fields[i].Type)
		}
	}
	if len(args) == 0 {
		return TV{Leaf(s.ctor()), t}
	}
	return TV{A(s.ctor(), args...), t}
}

// coerce adapts a value to a target type (boxing, nil).
func (e *Env) coerce(v TV, target types.Type) *Term {
	ts := e.sortOf(target)
	if isNilTV(v) {
		return e.w.zero(ts)
	}
	vs := e.sortOf(v.Ty)
	if ts == "Any" && vs != "Any" {
		return e.w.box(v.T, v.Ty)
	}
	if ts != vs {
		e.fail("cannot use value of sort %s as %s", vs, ts)
	}
	return v.T
}

func (e *Env) withState(h HeapView) *Env {
	c := *e
	c.state = h
	c.parent = e
	c.vars = map[string]TV{}
	return &c
}

func (e *Env) typeArg(x ast.Expr) types.Type {
	t, err := resolveTypeExpr(x, e.scope, e.w.P)
	if err != nil {
		e.fail("%v", err)
	}
	return t
}

func (e *Env) trCall(n *ast.CallExpr) TV {
	// pkg.specName(...): specification functions are global; the qualifier is documentation
	if sel, ok := n.Fun.(*ast.SelectorExpr); ok {
		if id, ok := sel.X.(*ast.Ident); ok {
			if _, bound := e.lookup(id.Name); !bound && e.scope != nil && e.scope.Aliases[id.Name] != nil {
				if _, isSpec := e.w.P.Specs[sel.Sel.Name]; isSpec {
					c := *n
					c.Fun = sel.Sel
					return e.trCall(&c)
				}
			}
		}
	}
	// method-style calls
	if sel, ok := n.Fun.(*ast.SelectorExpr); ok {
		if tv, ok := e.trMethodCall(sel, n.Args); ok {
			return tv
		}
	}
	// type conversion T(x) with qualified or simple type
	if t, err := resolveTypeExpr(n.Fun, e.scope, e.w.P); err == nil && len(n.Args) == 1 {
		if _, isIdent := n.Fun.(*ast.Ident); !isIdent || e.w.P.Specs[n.Fun.(*ast.Ident).Name] == nil {
			v := e.tr(n.Args[0])
			if e.sortOf(t) == e.sortOf(v.Ty) {
				return TV{v.T, t}
			}
			if e.sortOf(t) == "Any" {
				return TV{e.w.box(v.T, v.Ty), t}
			}
			if e.sortOf(t) == "String" && e.sortOf(v.Ty) == "Slice" {
				return TV{A(e.w.ufunc("str_of_bytes", []string{"Slice"}, "String"), v.T), t}
			}
			e.fail("unsupported conversion to %s", t)
		}
	}
	id, ok := n.Fun.(*ast.Ident)
	if !ok {
		e.fail("unsupported call %s", types.ExprString(n.Fun))
	}
	arg := func(i int) TV {
		if i >= len(n.Args) {
			e.fail("%s: missing argument %d", id.Name, i)
		}
		return e.tr(n.Args[i])
	}
	switch id.Name {
	case "len":
		v := arg(0)
		switch e.sortOf(v.Ty) {
		case "String":
			return TV{A("str.len", v.T), tyInt}
		case "Slice":
			return TV{A("s_len", v.T), tyInt}
		}
		e.fail("len of %s", v.Ty)
	case "cap":
		return TV{A("s_cap", arg(0).T), tyInt}
	case "old":
		if e.old == nil {
			e.fail("old() not available here")
		}
		return e.withState(e.old).tr(n.Args[0])
	case "entry":
		if e.entry == nil {
			e.fail("entry() not available here")
		}
		return e.withState(e.entry).tr(n.Args[0])
	case "cond":
		c := e.trBool(n.Args[0])
		a, b := arg(1), arg(2)
		ty := a.Ty
		if isNilTV(a) {
			ty = b.Ty
		}
		return TV{Ite(c, e.coerce(a, ty), e.coerce(b, ty)), ty}
	case "implies":
		return TV{Implies(e.trBool(n.Args[0]), e.trBool(n.Args[1])), tyBool}
	case "iff":
		return TV{Eq(e.trBool(n.Args[0]), e.trBool(n.Args[1])), tyBool}
	case "forall", "exists":
		// forall(i, lo, hi, body)
		v, ok := n.Args[0].(*ast.Ident)
		if !ok || len(n.Args) != 4 {
			e.fail("%s(i, lo, hi, body) expected", id.Name)
		}
		lo, hi := arg(1).T, arg(2).T
		c := e.child()
		bv := Leaf("q_" + v.Name + "_" + strconv.Itoa(e.w.fresh()))
		c.vars[v.Name] = TV{bv, tyInt}
		body := c.trBool(n.Args[3])
		rng := And(Le(lo, bv), Lt(bv, hi))
		inner := Implies(rng, body)
		if id.Name == "exists" {
			inner = And(rng, body)
		}
		// patterns: slice elements addressed by the bound variable
		pats := map[string]*Term{}
		body.walk(func(x *Term) {
			if x.Op == "select" && len(x.Args) == 2 && x.Args[1].Op == "sidx" && len(x.Args[1].Args) == 2 && x.Args[1].Args[1] == bv {
				ok := true
				x.Args[0].walk(func(y *Term) {
					if y == bv {
						ok = false
					}
				})
				x.Args[1].Args[0].walk(func(y *Term) {
					if y == bv {
						ok = false
					}
				})
				if ok {
					pats[x.String()] = x
				}
			}
			// uninterpreted applications with the bound variable as a direct argument
			if _, isUF := e.w.ufuncs[x.Op]; isUF && len(x.Args) > 0 {
				direct := false
				for _, a := range x.Args {
					if a == bv {
						direct = true
					}
				}
				if direct {
					nested := false
					for _, a := range x.Args {
						if a != bv {
							a.walk(func(y *Term) {
								if y == bv {
									nested = true
								}
							})
						}
					}
					bad := false
					x.walk(func(y *Term) {
						switch y.Op {
						case "and", "or", "not", "ite", "=>", "=", "forall", "exists", "<", "<=":
							bad = true
						}
					})
					if !nested && !bad {
						pats[x.String()] = x
					}
				}
			}
		})
		if len(pats) > 0 {
			args := []*Term{inner}
			for _, k := range sortedKeys(pats) {
				args = append(args, Leaf(":pattern"), A("", pats[k]))
			}
			inner = A("!", args...)
		}
		return TV{A(id.Name, A("("+"("+bv.Op+" Int)"+")"), inner), tyBool}
	case "let":
		v, ok := n.Args[0].(*ast.Ident)
		if !ok || len(n.Args) != 3 {
			e.fail("let(x, e, body) expected")
		}
		c := e.child()
		c.vars[v.Name] = arg(1)
		return c.tr(n.Args[2])
	case "fresh":
		v := arg(0)
		r := v.T
		if e.sortOf(v.Ty) == "Slice" {
			r = A("s_base", r)
		}
		if e.old == nil {
			e.fail("fresh() not available here")
		}
		return TV{And(Le(e.heap(e.old, "$cnt", "Int"), r), Lt(r, e.heap(e.state, "$cnt", "Int")), Lt(IntLit(0), r)), tyBool}
	case "allocated":
		v := arg(0)
		r := v.T
		if e.sortOf(v.Ty) == "Slice" {
			r = A("s_base", r)
		}
		return TV{And(Le(IntLit(0), r), Lt(r, e.heap(e.state, "$cnt", "Int"))), tyBool}
	case "is":
		return TV{e.w.isDyn(arg(0).T, e.typeArg(n.Args[1])), tyBool}
	case "as":
		t := e.typeArg(n.Args[1])
		return TV{e.w.unbox(arg(0).T, t), t}
	case "box":
		v := arg(0)
		return TV{e.w.box(v.T, v.Ty), tyAny}
	case "itoa":
		return TV{A(e.w.ufunc("itoa", []string{"Int"}, "String"), arg(0).T), tyString}
	case "kept":
		// kept(pred, T): every object of type T that satisfied pred at function entry still does
		pid, ok := n.Args[0].(*ast.Ident)
		if sel, isSel := n.Args[0].(*ast.SelectorExpr); isSel {
			pid, ok = sel.Sel, true
		}
		if !ok || e.old == nil {
			e.fail("kept(pred, T) expected, in a context with an old state")
		}
		sf := e.w.P.Specs[pid.Name]
		if sf == nil || len(sf.Params) != 1 {
			e.fail("kept: %s is not a one-parameter spec predicate", pid.Name)
		}
		pt := e.typeArg(n.Args[1])
		q := Leaf("q_kept_" + strconv.Itoa(e.w.fresh()))
		now := e.applySpec(sf, []TV{{q, pt}}).T
		before := e.withState(e.old).applySpec(sf, []TV{{q, pt}}).T
		return TV{A("forall", A("(("+q.Op+" Int))"), Implies(And(Le(IntLit(1), q), Lt(q, e.heap(e.old, "$cnt", "Int")), before), now)), tyBool}
	case "disjoint":
		a, b := arg(0).T, arg(1).T
		return TV{Or(Eq(A("s_base", a), IntLit(0)), Eq(A("s_base", b), IntLit(0)), Not(Eq(A("s_base", a), A("s_base", b)))), tyBool}
	case "sameOld":
		// sameOld(x): the backing arrays (of x's element sort) that existed at function entry are unchanged
		v := arg(0)
		if mt, isMap := v.Ty.Underlying().(*types.Map); isMap && e.old != nil {
			ks, vs := e.sortOf(mt.Key()), e.sortOf(mt.Elem())
			hn, vn := "M."+ks+"."+vs+".has", "M."+ks+"."+vs+".val"
			hs, vso := arraySort("Int", arraySort(ks, "Bool")), arraySort("Int", arraySort(ks, vs))
			q := Leaf("q_so_" + strconv.Itoa(e.w.fresh()))
			rng := And(Le(IntLit(1), q), Lt(q, e.heap(e.old, "$cnt", "Int")))
			return TV{A("forall", A("(("+q.Op+" Int))"), Implies(rng, And(
				Eq(Select(e.heap(e.state, hn, hs), q), Select(e.heap(e.old, hn, hs), q)),
				Eq(Select(e.heap(e.state, vn, vso), q), Select(e.heap(e.old, vn, vso), q))))), tyBool}
		}
		stp, ok := v.Ty.Underlying().(*types.Slice)
		if !ok || e.old == nil {
			e.fail("sameOld(slice) expected, in a context with an old state")
		}
		es := e.sortOf(stp.Elem())
		so := arraySort("Int", arraySort("Int", es))
		now, before := e.heap(e.state, heapSliceNameT(stp.Elem()), so), e.heap(e.old, heapSliceNameT(stp.Elem()), so)
		q := Leaf("q_so_" + strconv.Itoa(e.w.fresh()))
		return TV{A("forall", A("(("+q.Op+" Int))"), A("!", Implies(And(Le(IntLit(1), q), Lt(q, e.heap(e.old, "$cnt", "Int"))),
			Eq(Select(now, q), Select(before, q))), Leaf(":pattern"), A("", Select(now, q)))), tyBool}
	case "has":
		// has(m, k): map membership
		m := arg(0)
		mt, ok := m.Ty.Underlying().(*types.Map)
		if !ok {
			e.fail("has() of non-map")
		}
		ks, vs := e.sortOf(mt.Key()), e.sortOf(mt.Elem())
		if pv := e.viewOf(m.T); pv != nil && pv.has != nil {
			return TV{And(Not(Eq(m.T, IntLit(0))), Select(pv.has, e.coerce(arg(1), mt.Key()))), tyBool}
		}
		hasArr := e.heap(e.state, "M."+ks+"."+vs+".has", arraySort("Int", arraySort(ks, "Bool")))
		return TV{And(Not(Eq(m.T, IntLit(0))), Select(Select(hasArr, m.T), e.coerce(arg(1), mt.Key()))), tyBool}
	case "visited":
		// visited(k): key k has been yielded by the range over a map this invariant belongs to
		if e.vis == nil {
			e.fail("visited() outside an invariant of a range over a map")
		}
		return TV{Select(e.vis, arg(0).T), tyBool}
	case "forallkey":
		// forallkey(k, m, body): body holds for every key k present in map m
		v, ok := n.Args[0].(*ast.Ident)
		if !ok || len(n.Args) != 3 {
			e.fail("forallkey(k, m, body) expected")
		}
		m := arg(1)
		mt, ok := m.Ty.Underlying().(*types.Map)
		if !ok {
			e.fail("forallkey() over non-map")
		}
		ks, vs := e.sortOf(mt.Key()), e.sortOf(mt.Elem())
		hasArr := e.heap(e.state, "M."+ks+"."+vs+".has", arraySort("Int", arraySort(ks, "Bool")))
		c := e.child()
		bv := Leaf("q_" + v.Name + "_" + strconv.Itoa(e.w.fresh()))
		c.vars[v.Name] = TV{bv, mt.Key()}
		body := c.trBool(n.Args[2])
		pres := Select(Select(hasArr, m.T), bv)
		return TV{A("forall", A("(("+bv.Op+" "+ks+"))"), A("!", Implies(And(Not(Eq(m.T, IntLit(0))), pres), body), Leaf(":pattern"), A("", pres))), tyBool}
	case "keysAre":
		// keysAre(m, k1, ..., kn): the key set of map m is exactly {k1..kn}
		m := arg(0)
		mt, ok := m.Ty.Underlying().(*types.Map)
		if !ok {
			e.fail("keysAre() of non-map")
		}
		ks, vs := e.sortOf(mt.Key()), e.sortOf(mt.Elem())
		hasArr := e.heap(e.state, "M."+ks+"."+vs+".has", arraySort("Int", arraySort(ks, "Bool")))
		set := A("(as const "+arraySort(ks, "Bool")+")", tFalse)
		for i := 1; i < len(n.Args); i++ {
			set = Store(set, e.coerce(arg(i), mt.Key()), tTrue)
		}
		return TV{And(Not(Eq(m.T, IntLit(0))), Eq(Select(hasArr, m.T), set)), tyBool}
	case "sprintf":
		// sprintf(format, args): the uninterpreted formatting function (bridged to the verb-by-verb
		// expansion at call sites with a constant format string)
		f := e.w.ufunc("sprintfU", []string{"String", "Slice", arraySort("Int", "Any")}, "String")
		h := e.heap(e.state, "S.any", arraySort("Int", arraySort("Int", "Any")))
		sl := arg(1).T
		return TV{A(f, arg(0).T, sl, Select(h, A("s_base", sl))), tyString}
	case "refOf":
		// the reference held by an interface value whose dynamic type is a pointer
		return TV{A("pref", arg(0).T), types.NewPointer(types.NewStruct(nil, nil))}
	case "boxval":
		// boxval(T, i): the value of type T stored at reference i (pointer to a non-struct T)
		t := e.typeArg(n.Args[0])
		so := e.sortOf(t)
		return TV{Select(e.heap(e.state, heapBoxName(so), arraySort("Int", so)), arg(1).T), t}
	case "hasPrefix":
		return TV{A("str.prefixof", arg(1).T, arg(0).T), tyBool}
	case "hasSuffix":
		return TV{A("str.suffixof", arg(1).T, arg(0).T), tyBool}
	case "contains":
		return TV{A("str.contains", arg(0).T, arg(1).T), tyBool}
	case "indexOf":
		return TV{A("str.indexof", arg(0).T, arg(1).T, IntLit(0)), tyInt}
	case "substr":
		lo := arg(1).T
		return TV{A("str.substr", arg(0).T, lo, Sub(arg(2).T, lo)), tyString}
	case "ghost_fx":
		// ghost_fx("class"): the effect counter of a class
		lit, ok := n.Args[0].(*ast.BasicLit)
		if !ok {
			e.fail("$fx(\"class\") expected")
		}
		cl, _ := strconv.Unquote(lit.Value)
		return TV{e.heap(e.state, "$fx."+cl, "Int"), tyInt}
	}
	// explicit instance of a library axiom (only meaningful in "use" clauses)
	for _, ax := range e.w.P.Axioms {
		if ax.Name == id.Name {
			if len(n.Args) != len(ax.Params) {
				e.fail("axiom %s: %d arguments, want %d", ax.Name, len(n.Args), len(ax.Params))
			}
			c := &Env{w: e.w, vars: map[string]TV{}, state: e.state, scope: ax.Scope, where: e.where + " > axiom " + ax.Name}
			for i, p := range ax.Params {
				v := arg(i)
				c.vars[p.Name] = TV{e.coerce(v, p.Type), p.Type}
			}
			e.w.axiomsUsed[ax.Name+": "+ax.Text] = true
			return TV{c.trBool(ax.Body), tyBool}
		}
	}
	if sf, ok := e.w.P.Specs[id.Name]; ok {
		args := make([]TV, len(n.Args))
		for i := range n.Args {
			args[i] = e.tr(n.Args[i])
		}
		return e.applySpec(sf, args)
	}
	// pure library function alias
	if pf, ok := e.w.pureAliases[id.Name]; ok {
		args := make([]TV, len(n.Args))
		for i := range n.Args {
			args[i] = e.tr(n.Args[i])
		}
		return e.w.applyPureAlias(e, id.Name, pf, args)
	}
	e.fail("unknown function %s", id.Name)
	return TV{}
}

// trMethodCall handles x.M(args) forms that have a specification-level meaning.
func (e *Env) trMethodCall(sel *ast.SelectorExpr, args []ast.Expr) (TV, bool) {
	// do not treat pkg.Func as a method call
	if id, ok := sel.X.(*ast.Ident); ok {
		if _, bound := e.lookup(id.Name); !bound && e.scope != nil && e.scope.Aliases[id.Name] != nil {
			return TV{}, false
		}
	}
	recv := e.tr(sel.X)
	// builder contents
	if pt, ok := recv.Ty.Underlying().(*types.Pointer); ok && isBuilderType(pt.Elem()) && sel.Sel.Name == "String" {
		return TV{Select(e.heap(e.state, "Bld", arraySort("Int", "String")), recv.T), tyString}, true
	}
	// interface method with an iface specification
	if _, ok := recv.Ty.Underlying().(*types.Interface); ok {
		key := "(" + types.TypeString(recv.Ty, nil) + ")." + sel.Sel.Name
		if is, ok := e.w.P.Ifaces[key]; ok {
			sf := e.w.P.Specs[is.Spec]
			if sf == nil {
				e.fail("iface spec %s not found", is.Spec)
			}
			tvs := []TV{recv}
			for _, a := range args {
				tvs = append(tvs, e.tr(a))
			}
			return e.applySpec(sf, tvs), true
		}
		if pf, ok := e.w.pureByKey[key]; ok {
			tvs := []TV{recv}
			for _, a := range args {
				tvs = append(tvs, e.tr(a))
			}
			return e.w.applyPure(e, pf, tvs), true
		}
	}
	// concrete method with a pure library contract
	key := methodKey(recv.Ty, sel.Sel.Name)
	if pf, ok := e.w.pureByKey[key]; ok {
		tvs := []TV{recv}
		for _, a := range args {
			tvs = append(tvs, e.tr(a))
		}
		return e.w.applyPure(e, pf, tvs), true
	}
	e.fail("method %s has no specification-level meaning (key %s)", sel.Sel.Name, key)
	return TV{}, false
}

func methodKey(recv types.Type, name string) string {
	return "(" + types.TypeString(recv, nil) + ")." + name
}

// applySpec applies a specification function: inlined when non-recursive, an uninterpreted
// application (unfolded at script time) when recursive or abstract.
func (e *Env) applySpec(sf *SpecFunc, args []TV) TV {
	if len(args) != len(sf.Params) {
		e.fail("spec %s: %d arguments, want %d", sf.Name, len(args), len(sf.Params))
	}
	coerced := make([]*Term, len(args))
	for i, a := range args {
		coerced[i] = e.coerce(a, sf.Params[i].Type)
	}
	if sf.Body != nil && !sf.Recursive && !sf.Opaque {
		if e.depth > 60 {
			e.fail("spec inlining too deep at %s", sf.Name)
		}
		c := &Env{w: e.w, vars: map[string]TV{}, state: e.state, old: nil, entry: nil, scope: sf.Scope, depth: e.depth + 1,
			where: e.where + " > spec " + sf.Name}
		for i, p := range sf.Params {
			c.vars[p.Name] = TV{coerced[i], p.Type}
		}
		r := c.tr(sf.Body)
		return TV{c.coerce(r, sf.Result), sf.Result}
	}
	// uninterpreted application with explicit heap arguments
	if e.w.discovering {
		for _, h := range sf.Reads {
			e.heap(e.state, h, e.w.heapSorts[h])
		}
		for i, p := range sf.Params {
			switch u := p.Type.Underlying().(type) {
			case *types.Slice:
				if pv := e.viewOf(args[i].T); pv == nil || pv.arr == nil {
					es := e.sortOf(u.Elem())
					e.heap(e.state, heapSliceNameT(u.Elem()), arraySort("Int", arraySort("Int", es)))
				}
			case *types.Map:
				if pv := e.viewOf(args[i].T); pv == nil || pv.has == nil {
					ks, vs := e.sortOf(u.Key()), e.sortOf(u.Elem())
					e.heap(e.state, "M."+ks+"."+vs+".has", arraySort("Int", arraySort(ks, "Bool")))
					e.heap(e.state, "M."+ks+"."+vs+".val", arraySort("Int", arraySort(ks, vs)))
				}
			}
		}
		return TV{Leaf("DISCOVERY"), sf.Result}
	}
	e.w.ensureReads()
	argSorts := make([]string, 0, len(args)+len(sf.Reads))
	all := make([]*Term, 0, len(args)+len(sf.Reads))
	for i, p := range sf.Params {
		argSorts = append(argSorts, e.sortOf(p.Type))
		all = append(all, coerced[i])
	}
	// views of slice / map parameters
	for i, p := range sf.Params {
		switch u := p.Type.Underlying().(type) {
		case *types.Slice:
			es := e.sortOf(u.Elem())
			argSorts = append(argSorts, arraySort("Int", es))
			if pv := e.viewOf(args[i].T); pv != nil && pv.arr != nil {
				all = append(all, pv.arr)
			} else {
				h := e.heap(e.state, heapSliceNameT(u.Elem()), arraySort("Int", arraySort("Int", es)))
				all = append(all, Select(h, A("s_base", coerced[i])))
			}
		case *types.Map:
			ks, vs := e.sortOf(u.Key()), e.sortOf(u.Elem())
			argSorts = append(argSorts, arraySort(ks, "Bool"), arraySort(ks, vs))
			if pv := e.viewOf(args[i].T); pv != nil && pv.has != nil {
				all = append(all, pv.has, pv.val)
			} else {
				hh := e.heap(e.state, "M."+ks+"."+vs+".has", arraySort("Int", arraySort(ks, "Bool")))
				hv := e.heap(e.state, "M."+ks+"."+vs+".val", arraySort("Int", arraySort(ks, vs)))
				all = append(all, Select(hh, coerced[i]), Select(hv, coerced[i]))
			}
		}
	}
	for _, h := range sf.Reads {
		so := e.w.heapSorts[h]
		argSorts = append(argSorts, so)
		all = append(all, e.heap(e.state, h, so))
	}
	name := e.w.ufunc("spec_"+sf.Name, argSorts, e.sortOf(sf.Result))
	if len(all) == 0 {
		return TV{Leaf(name), sf.Result}
	}
	return TV{A(name, all...), sf.Result}
}

// bindSpecParams binds the parameters of a recursive spec function for unfolding / discovery: params to
// the given terms, slice and map parameters additionally to their views.  It returns the number of
// argument terms consumed.
func (w *World) bindSpecParams(env *Env, sf *SpecFunc, args []*Term) int {
	env.views = map[*Term]*paramView{}
	n := len(sf.Params)
	get := func(i int) *Term {
		if args == nil {
			return Leaf(fmt.Sprintf("VIEW_%d", i))
		}
		return args[i]
	}
	for i, p := range sf.Params {
		var t *Term
		if args == nil {
			t = Leaf("p_" + p.Name)
		} else {
			t = args[i]
		}
		env.vars[p.Name] = TV{t, p.Type}
	}
	for _, p := range sf.Params {
		t := env.vars[p.Name].T
		switch p.Type.Underlying().(type) {
		case *types.Slice:
			env.views[t] = &paramView{arr: get(n)}
			n++
		case *types.Map:
			env.views[t] = &paramView{has: get(n), val: get(n + 1)}
			n += 2
		}
	}
	return n
}

// fixedHeap is a HeapView over a fixed map (used when unfolding spec applications).
type fixedHeap struct {
	m     map[string]*Term
	reads map[string]string
	w     *World
}

func (f *fixedHeap) Get(name, sort string) *Term {
	if f.reads != nil {
		f.reads[name] = sort
	}
	if t, ok := f.m[name]; ok {
		return t
	}
	// discovery mode or heap not threaded: a per-name dummy
	return Leaf("DUMMY_" + mangle(name))
}

func (w *World) fresh() int {
	w.counter++
	return w.counter
}

// ensureReads computes, to a fixpoint, the heap variables each recursive spec function reads.
func (w *World) ensureReads() {
	if w.readsDone {
		return
	}
	w.readsDone = true
	w.discovering = true
	defer func() { w.discovering = false }()
	names := sortedKeys(w.P.Specs)
	for iter := 0; iter < 10; iter++ {
		changed := false
		for _, n := range names {
			sf := w.P.Specs[n]
			if sf.Body == nil || (!sf.Recursive && !sf.Opaque) {
				continue
			}
			fh := &fixedHeap{m: map[string]*Term{}, reads: map[string]string{}, w: w}
			env := &Env{w: w, vars: map[string]TV{}, state: fh, scope: sf.Scope, where: "spec " + sf.Name}
			w.bindSpecParams(env, sf, nil)
			func() {
				defer func() {
					if r := recover(); r != nil {
						if se, ok := r.(specErr); ok {
							panic(specErr{"while analysing " + sf.Name + ": " + se.msg})
						}
						panic(r)
					}
				}()
				env.tr(sf.Body)
			}()
			set := map[string]bool{}
			for _, r := range sf.Reads {
				set[r] = true
			}
			for r, so := range fh.reads {
				if !set[r] {
					set[r] = true
					changed = true
				}
				w.heapSorts[r] = so
			}
			sf.Reads = sortedKeys(set)
		}
		if !changed {
			break
		}
	}
}

// markRecursive computes which spec functions are (mutually) recursive.
func (P *Program) markRecursive() {
	calls := map[string]map[string]bool{}
	for n, sf := range P.Specs {
		calls[n] = map[string]bool{}
		if sf.Body == nil {
			continue
		}
		ast.Inspect(sf.Body, func(x ast.Node) bool {
			switch c := x.(type) {
			case *ast.CallExpr:
				if id, ok := c.Fun.(*ast.Ident); ok {
					if _, ok := P.Specs[id.Name]; ok {
						calls[n][id.Name] = true
					}
				}
				if sel, ok := c.Fun.(*ast.SelectorExpr); ok {
					// iface-dispatched method calls: any iface spec with that method name
					for k, is := range P.Ifaces {
						if strings.HasSuffix(k, ")."+sel.Sel.Name) {
							calls[n][is.Spec] = true
						}
					}
				}
			case *ast.Ident:
				if sf2, ok := P.Specs[c.Name]; ok && len(sf2.Params) == 0 {
					calls[n][c.Name] = true
				}
			}
			return true
		})
	}
	for n := range P.Specs {
		// DFS from n's callees back to n
		seen := map[string]bool{}
		var stack []string
		for c := range calls[n] {
			stack = append(stack, c)
		}
		for len(stack) > 0 {
			c := stack[len(stack)-1]
			stack = stack[:len(stack)-1]
			if c == n {
				P.Specs[n].Recursive = true
				break
			}
			if seen[c] {
				continue
			}
			seen[c] = true
			for d := range calls[c] {
				stack = append(stack, d)
			}
		}
	}
}
