package main

import (
	"fmt"
	"go/types"
	"sort"
	"strings"
)

// compiledAxiom is a library axiom translated once per run.
type compiledAxiom struct {
	ax   *Axiom
	term *Term
}

func (w *World) compileAxioms() error {
	// axioms are only used through explicit "use" instances (quantified string axioms make the
	// solvers unreliable); nothing to compile ahead of time
	for _, ax := range w.P.Axioms {
		if len(ax.Params) > 0 {
			continue // quantified axioms are used only through explicit "use" instances
		}
		var err error
		func() {
			defer func() {
				if r := recover(); r != nil {
					if se, ok := r.(specErr); ok {
						err = fmt.Errorf("%s:%d: axiom %s: %s", ax.File, ax.Line, ax.Name, se.msg)
						return
					}
					panic(r)
				}
			}()
			fh := &fixedHeap{m: map[string]*Term{}, w: w}
			env := &Env{w: w, vars: map[string]TV{}, state: fh, scope: ax.Scope, where: "axiom " + ax.Name}
			var binders []string
			for _, p := range ax.Params {
				v := Leaf("ax_" + p.Name)
				env.vars[p.Name] = TV{v, p.Type}
				binders = append(binders, fmt.Sprintf("(%s %s)", v.Op, w.sortOf(p.Type)))
			}
			body := env.trBool(ax.Body)
			reads := false
			body.walk(func(x *Term) {
				if strings.HasPrefix(x.Op, "DUMMY_") {
					reads = true
				}
			})
			if reads {
				return // reads program state: available through "use" only
			}
			if len(binders) > 0 {
				body = A("forall", A("("+strings.Join(binders, " ")+")"), body)
			}
			w.axioms = append(w.axioms, &compiledAxiom{ax: ax, term: body})
			w.assumptions["library axiom (ground, always included) "+ax.Name+": "+ax.Text] = true
		}()
		if err != nil {
			return err
		}
	}
	return nil
}

// unfoldSpecs returns defining-equation instances for the recursive spec applications in ts.
func (w *World) unfoldSpecs(ts []*Term, depth int, reveal map[string]bool) []*Term {
	seen := map[string]bool{}
	var out []*Term
	frontier := ts
	for d := 0; d < depth; d++ {
		var apps []*Term
		for _, t := range frontier {
			for _, x := range t.summary().apps {
				if strings.HasPrefix(x.Op, "spec_") {
					k := x.String()
					if !seen[k] {
						seen[k] = true
						apps = append(apps, x)
					}
				}
			}
		}
		if len(apps) == 0 {
			break
		}
		var next []*Term
		for _, app := range apps {
			sf := w.P.Specs[strings.TrimPrefix(app.Op, "spec_")]
			if sf == nil || sf.Body == nil {
				continue
			}
			if sf.Opaque && !reveal[sf.Name] {
				continue
			}
			env := &Env{w: w, vars: map[string]TV{}, scope: sf.Scope, where: "unfolding " + sf.Name}
			nview := 0
			for _, p := range sf.Params {
				switch p.Type.Underlying().(type) {
				case *types.Slice:
					nview++
				case *types.Map:
					nview += 2
				}
			}
			if len(app.Args) != len(sf.Params)+nview+len(sf.Reads) {
				continue
			}
			used := w.bindSpecParams(env, sf, app.Args)
			fh := &fixedHeap{m: map[string]*Term{}, w: w}
			for i, r := range sf.Reads {
				fh.m[r] = app.Args[used+i]
			}
			env.state = fh
			var body *Term
			func() {
				defer func() {
					if r := recover(); r != nil {
						if se, ok := r.(specErr); ok {
							panic(unsupportedErr{"contract error: " + se.msg})
						}
						panic(r)
					}
				}()
				r := env.tr(sf.Body)
				body = env.coerce(r, sf.Result)
			}()
			eq := Eq(app, body)
			// applications under a quantifier mention its bound variables: quantify the instance too
			bound := map[string]bool{}
			app.walk(func(x *Term) {
				if len(x.Args) == 0 && strings.HasPrefix(x.Op, "q_") {
					bound[x.Op] = true
				}
			})
			if len(bound) > 0 {
				var bs []string
				for _, b := range sortedKeys(bound) {
					bs = append(bs, "("+b+" Int)")
				}
				eq = A("forall", A("("+strings.Join(bs, " ")+")"), A("!", eq, Leaf(":pattern"), A("", app)))
			}
			out = append(out, eq)
			next = append(next, body)
		}
		frontier = next
	}
	return out
}

// buildScript renders the SMT-LIB text of one obligation (without the shared prelude).
// coneOnly: when set, quantified assumptions are kept only if they mention a symbol in the goal's cone
// of influence (closure of the goal's symbols under the definitions of the named constants).  Sound:
// it only drops assumptions.
var coneOnly bool

var builtinSyms = map[string]bool{"and": true, "or": true, "not": true, "=>": true, "=": true, "ite": true, "select": true, "store": true,
	"+": true, "-": true, "*": true, "<": true, "<=": true, "true": true, "false": true, "forall": true, "exists": true, "!": true, ":pattern": true,
	"": true, "str.++": true, "str.len": true, "str.prefixof": true, "str.suffixof": true, "str.substr": true, "str.<": true, "str.<=": true,
	"str.contains": true, "str.at": true, "str.to_code": true, "str.indexof": true, "mk_slice": true, "s_base": true, "s_off": true, "s_len": true,
	"s_cap": true, "sidx": true, "any_nil": true, "box_ptr": true, "ptag": true, "pref": true, "div": true, "mod": true}

func coneOf(goal []*Term, asserts []*Term) map[string]bool {
	defs := map[string]*Term{}
	for _, a := range asserts {
		if a.Op == "=" && len(a.Args) == 2 && len(a.Args[0].Args) == 0 {
			defs[a.Args[0].Op] = a.Args[1]
		}
	}
	cone := map[string]bool{}
	var work []string
	add := func(t *Term) {
		for k := range t.summary().syms {
			if !builtinSyms[k] && !cone[k] && !(len(k) > 0 && (k[0] == '"' || (k[0] >= '0' && k[0] <= '9'))) {
				cone[k] = true
				work = append(work, k)
			}
		}
	}
	for _, g := range goal {
		add(g)
	}
	for len(work) > 0 {
		k := work[len(work)-1]
		work = work[:len(work)-1]
		if d, ok := defs[k]; ok {
			add(d)
		}
	}
	return cone
}

func intersects(t *Term, cone map[string]bool) bool {
	for k := range t.summary().syms {
		if cone[k] {
			return true
		}
	}
	return false
}

// qfOnly: when set, assumptions containing quantifiers are left out (sound: fewer assumptions); trivial
// goals are then decided without the solver wading through the quantified context.
var qfOnly bool

func hasQuant(t *Term) bool { return t.summary().quant }

func (o *Obligation) buildBody(w *World, depth int, dropHyp int, extra ...*Term) string {
	enc := o.enc
	var sb strings.Builder
	var asserts []*Term
	for _, it := range enc.items[:o.NItems] {
		if it.Decl {
			fmt.Fprintf(&sb, "(declare-const %s %s)\n", it.Name, it.Sort)
		} else if it.Scope == 0 || !o.ClosedScopes[it.Scope] {
			asserts = append(asserts, it.T)
		}
	}
	var hyps []*Term
	for i, h := range o.Hyps {
		if i != dropHyp {
			hyps = append(hyps, h)
		}
	}
	hyps = append(hyps, extra...)
	all := append(append([]*Term{}, asserts...), o.Goal)
	all = append(all, hyps...)
	// library axioms: only those that share an uninterpreted symbol with the obligation
	used := map[string]bool{}
	if len(w.axioms) > 0 {
		for _, t := range all {
			for k := range t.summary().syms {
				used[k] = true
			}
		}
	}
	var axioms []*compiledAxiom
	for _, ca := range w.axioms {
		syms := map[string]bool{}
		ca.term.symbols(syms)
		rel := false
		for sname := range syms {
			if _, isUF := w.ufuncs[sname]; isUF && used[sname] {
				rel = true
			}
		}
		if rel {
			axioms = append(axioms, ca)
			all = append(all, ca.term)
		}
	}
	var reveal map[string]bool
	if enc.fc != nil {
		reveal = enc.fc.Reveal
	}
	unf := w.unfoldSpecs(all, depth, reveal)
	unf = append(unf, w.pureFacts(append(append([]*Term{}, all...), unf...))...)
	// dummy heap constants possibly left by abstract evaluation
	dummies := map[string]bool{}
	for _, t := range append(all, unf...) {
		for _, d := range t.summary().dummy {
			dummies[d] = true
		}
	}
	if len(dummies) > 0 {
		ds := sortedKeys(dummies)
		panic(unsupportedErr{"specification reads heap state that is not threaded: " + strings.Join(ds, ",")})
	}
	for _, ca := range axioms {
		fmt.Fprintf(&sb, "(assert %s)\n", ca.term)
	}
	var cone map[string]bool
	if coneOnly {
		cone = coneOf(append([]*Term{o.Goal}, hyps...), append(append([]*Term{}, asserts...), unf...))
	}
	for _, a := range asserts {
		if qfOnly && hasQuant(a) {
			continue
		}
		if coneOnly && hasQuant(a) && !intersects(a, cone) {
			continue
		}
		fmt.Fprintf(&sb, "(assert %s)\n", a)
	}
	for _, u := range unf {
		if qfOnly && hasQuant(u) {
			continue
		}
		if coneOnly && hasQuant(u) && !intersects(u, cone) {
			continue
		}
		fmt.Fprintf(&sb, "(assert %s)\n", u)
	}
	for _, h := range hyps {
		fmt.Fprintf(&sb, "(assert %s)\n", h)
	}
	fmt.Fprintf(&sb, "(assert (not %s))\n", o.Goal)
	sb.WriteString("(check-sat)\n")
	if len(enc.inputs) > 0 {
		var vs []string
		for _, in := range enc.inputs {
			vs = append(vs, in.T.Op)
		}
		sort.Strings(vs)
		fmt.Fprintf(&sb, "(get-value (%s))\n", strings.Join(vs, " "))
	}
	return sb.String()
}

const scriptHeader = "(set-option :produce-models true)\n(set-logic ALL)\n"

// pureFacts instantiates the heap-independent postconditions of pure library functions for every
// application term in the obligation (e.g. tupleLen(t) >= 0), so that facts about such terms do not
// depend on whether the program happened to call the function.
func (w *World) pureFacts(ts []*Term) []*Term {
	if w.pureByName == nil {
		w.pureByName = map[string]*PureFn{}
		for _, pf := range w.pureByKey {
			for _, n := range pf.Names {
				w.pureByName[n] = pf
			}
		}
	}
	seen := map[string]bool{}
	var out []*Term
	for _, t := range ts {
		for _, x := range t.summary().apps {
			x := x
			func() {
			pf, ok := w.pureByName[x.Op]
			if !ok || len(x.Args) != len(pf.Params) {
				return
			}
			k := x.String()
			if seen[k] {
				return
			}
			seen[k] = true
			boundVars := map[string]bool{}
			skip := false
			x.walk(func(y *Term) {
				if len(y.Args) == 0 && strings.HasPrefix(y.Op, "q_") {
					boundVars[y.Op] = true
				}
				if len(y.Args) == 0 && strings.HasPrefix(y.Op, "ax_") {
					skip = true
				}
			})
			if skip {
				return
			}
			fc := w.P.Contracts[pf.Key]
			if fc == nil || len(fc.Ensures) == 0 || len(fc.Params) != len(pf.Params) {
				return
			}
			fh := &fixedHeap{m: map[string]*Term{}, w: w}
			env := &Env{w: w, vars: map[string]TV{}, state: fh, old: fh, scope: fc.Scope, where: "pure fact " + pf.Key}
			for i, p := range fc.Params {
				env.vars[p] = TV{x.Args[i], pf.Params[i]}
			}
			for i, r := range fc.Results {
				if i < len(pf.Names) {
					name := w.ufunc(pf.Names[i], sortsOf(w, pf.Params), w.sortOf(pf.Results[i]))
					env.vars[r] = TV{A(name, x.Args...), pf.Results[i]}
				}
			}
			// the function's precondition guards the fact
			var guard []*Term
			okAll := true
			tr := func(c *Clause) *Term {
				var res *Term
				func() {
					defer func() {
						if r := recover(); r != nil {
							okAll = false
						}
					}()
					res = env.trBool(c.Expr)
				}()
				return res
			}
			for _, rq := range fc.Requires {
				if g := tr(rq); g != nil {
					guard = append(guard, g)
				}
			}
			for _, en := range fc.Ensures {
				f := tr(en)
				if f == nil {
					continue
				}
				heapy := false
				f.walk(func(y *Term) {
					if strings.HasPrefix(y.Op, "DUMMY_") {
						heapy = true
					}
				})
				for _, g := range guard {
					g.walk(func(y *Term) {
						if strings.HasPrefix(y.Op, "DUMMY_") {
							heapy = true
						}
					})
				}
				if heapy {
					continue
				}
				fact := Implies(And(guard...), f)
				if len(boundVars) > 0 {
					var bs []string
					for _, b := range sortedKeys(boundVars) {
						bs = append(bs, "("+b+" Int)")
					}
					fact = A("forall", A("("+strings.Join(bs, " ")+")"), A("!", fact, Leaf(":pattern"), A("", x)))
				}
				out = append(out, fact)
			}
			_ = okAll
			}()
		}
	}
	return out
}

func sortsOf(w *World, ts []types.Type) []string {
	out := make([]string, len(ts))
	for i, t := range ts {
		out[i] = w.sortOf(t)
	}
	return out
}
