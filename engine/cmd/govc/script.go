package main

import (
	"fmt"
	"go/types"
	"sort"
	"strings"
)

// compiledAxiom is a library axiom translated once per run.
type compiledAxiom struct {
	ax   *Axiom
	term *Term
}

func (w *World) compileAxioms() error {
	// axioms are only used through explicit "use" instances (quantified string axioms make the
	// solvers unreliable); nothing to compile ahead of time
	for _, ax := range w.P.Axioms {
		if len(ax.Params) > 0 {
			continue // quantified axioms are used only through explicit "use" instances
		}
		var err error
		func() {
			defer func() {
				if r := recover(); r != nil {
					if se, ok := r.(specErr); ok {
						err = fmt.Errorf("%s:%d: axiom %s: %s", ax.File, ax.Line, ax.Name, se.msg)
						return
					}
					panic(r)
				}
			}()
			fh := &fixedHeap{m: map[string]*Term{}, w: w}
			env := &Env{w: w, vars: map[string]TV{}, state: fh, scope: ax.Scope, where: "axiom " + ax.Name}
			var binders []string
			for _, p := range ax.Params {
				v := Leaf("ax_" + p.Name)
				env.vars[p.Name] = TV{v, p.Type}
				binders = append(binders, fmt.Sprintf("(%s %s)", v.Op, w.sortOf(p.Type)))
			}
			body := env.trBool(ax.Body)
			reads := false
			body.walk(func(x *Term) {
				if strings.HasPrefix(x.Op, "DUMMY_") {
					reads = true
				}
			})
			if reads {
				return // reads program state: available through "use" only
			}
			if len(binders) > 0 {
				body = A("forall", A("("+strings.Join(binders, " ")+")"), body)
			}
			w.axioms = append(w.axioms, &compiledAxiom{ax: ax, term: body})
		}()
		if err != nil {
			return err
		}
	}
	return nil
}

// unfoldSpecs returns defining-equation instances for the recursive spec applications in ts.
func (w *World) unfoldSpecs(ts []*Term, depth int, reveal map[string]bool) []*Term {
	seen := map[string]bool{}
	var out []*Term
	frontier := ts
	for d := 0; d < depth; d++ {
		var apps []*Term
		for _, t := range frontier {
			t.walk(func(x *Term) {
				if strings.HasPrefix(x.Op, "spec_") {
					k := x.String()
					if !seen[k] {
						seen[k] = true
						apps = append(apps, x)
					}
				}
			})
		}
		if len(apps) == 0 {
			break
		}
		var next []*Term
		for _, app := range apps {
			sf := w.P.Specs[strings.TrimPrefix(app.Op, "spec_")]
			if sf == nil || sf.Body == nil {
				continue
			}
			if sf.Opaque && !reveal[sf.Name] {
				continue
			}
			env := &Env{w: w, vars: map[string]TV{}, scope: sf.Scope, where: "unfolding " + sf.Name}
			nview := 0
			for _, p := range sf.Params {
				switch p.Type.Underlying().(type) {
				case *types.Slice:
					nview++
				case *types.Map:
					nview += 2
				}
			}
			if len(app.Args) != len(sf.Params)+nview+len(sf.Reads) {
				continue
			}
			used := w.bindSpecParams(env, sf, app.Args)
			fh := &fixedHeap{m: map[string]*Term{}, w: w}
			for i, r := range sf.Reads {
				fh.m[r] = app.Args[used+i]
			}
			env.state = fh
			var body *Term
			func() {
				defer func() {
					if r := recover(); r != nil {
						if se, ok := r.(specErr); ok {
							panic(unsupportedErr{"contract error: " + se.msg})
						}
						panic(r)
					}
				}()
				r := env.tr(sf.Body)
				body = env.coerce(r, sf.Result)
			}()
			eq := Eq(app, body)
			// applications under a quantifier mention its bound variables: quantify the instance too
			bound := map[string]bool{}
			app.walk(func(x *Term) {
				if len(x.Args) == 0 && strings.HasPrefix(x.Op, "q_") {
					bound[x.Op] = true
				}
			})
			if len(bound) > 0 {
				var bs []string
				for _, b := range sortedKeys(bound) {
					bs = append(bs, "("+b+" Int)")
				}
				eq = A("forall", A("("+strings.Join(bs, " ")+")"), A("!", eq, Leaf(":pattern"), A("", app)))
			}
			out = append(out, eq)
			next = append(next, body)
		}
		frontier = next
	}
	return out
}

// buildScript renders the SMT-LIB text of one obligation (without the shared prelude).
func (o *Obligation) buildBody(w *World, depth int, dropHyp int, extra ...*Term) string {
	enc := o.enc
	var sb strings.Builder
	var asserts []*Term
	for _, it := range enc.items[:o.NItems] {
		if it.Decl {
			fmt.Fprintf(&sb, "(declare-const %s %s)\n", it.Name, it.Sort)
		} else {
			asserts = append(asserts, it.T)
		}
	}
	var hyps []*Term
	for i, h := range o.Hyps {
		if i != dropHyp {
			hyps = append(hyps, h)
		}
	}
	hyps = append(hyps, extra...)
	all := append(append([]*Term{}, asserts...), o.Goal)
	all = append(all, hyps...)
	// library axioms: only those that share an uninterpreted symbol with the obligation
	used := map[string]bool{}
	for _, t := range all {
		t.symbols(used)
	}
	var axioms []*compiledAxiom
	for _, ca := range w.axioms {
		syms := map[string]bool{}
		ca.term.symbols(syms)
		rel := false
		for sname := range syms {
			if _, isUF := w.ufuncs[sname]; isUF && used[sname] {
				rel = true
			}
		}
		if rel {
			axioms = append(axioms, ca)
			all = append(all, ca.term)
		}
	}
	var reveal map[string]bool
	if enc.fc != nil {
		reveal = enc.fc.Reveal
	}
	unf := w.unfoldSpecs(all, depth, reveal)
	// dummy heap constants possibly left by abstract evaluation
	dummies := map[string]bool{}
	for _, t := range append(all, unf...) {
		t.walk(func(x *Term) {
			if strings.HasPrefix(x.Op, "DUMMY_") {
				dummies[x.Op] = true
			}
		})
	}
	if len(dummies) > 0 {
		ds := sortedKeys(dummies)
		panic(unsupportedErr{"specification reads heap state that is not threaded: " + strings.Join(ds, ",")})
	}
	for _, ca := range axioms {
		fmt.Fprintf(&sb, "(assert %s)\n", ca.term)
	}
	for _, a := range asserts {
		fmt.Fprintf(&sb, "(assert %s)\n", a)
	}
	for _, u := range unf {
		fmt.Fprintf(&sb, "(assert %s)\n", u)
	}
	for _, h := range hyps {
		fmt.Fprintf(&sb, "(assert %s)\n", h)
	}
	fmt.Fprintf(&sb, "(assert (not %s))\n", o.Goal)
	sb.WriteString("(check-sat)\n")
	if len(enc.inputs) > 0 {
		var vs []string
		for _, in := range enc.inputs {
			vs = append(vs, in.T.Op)
		}
		sort.Strings(vs)
		fmt.Fprintf(&sb, "(get-value (%s))\n", strings.Join(vs, " "))
	}
	return sb.String()
}

const scriptHeader = "(set-option :produce-models true)\n(set-logic ALL)\n"
