package main

import (
	"fmt"
	"go/ast"
	"go/types"
	"os"
	"path/filepath"
	"sort"
	"strings"

	"golang.org/x/tools/go/packages"
	"golang.org/x/tools/go/ssa"
	"golang.org/x/tools/go/ssa/ssautil"
)

const repoMod = "github.com/reedom/convergen"

// Program is the loaded /repo (SSA form) plus the parsed contracts.
type Program struct {
	Pkgs   []*packages.Package
	Prog   *ssa.Program
	SPkgs  []*ssa.Package
	Funcs  map[string]*ssa.Function // by canonical name (ssa.Function.String())
	ByPath map[string]*packages.Package

	Contracts map[string]*FuncContract // canonical function name -> contract
	Specs     map[string]*SpecFunc
	Axioms    []*Axiom
	Ifaces    map[string]*IfaceSpec // "(<iface>).<method>" -> spec function name
	Globals   map[string]*GlobalFact
	TypeInvs  map[string][]*TypeInv

	// all packages reachable (for resolving external type names in lib specs)
	AllTypes map[string]*types.Package
}

func loadProgram(repo string, libDir string) (*Program, error) {
	cfg := &packages.Config{
		Mode:       packages.LoadAllSyntax,
		Dir:        repo,
		BuildFlags: []string{"-tags", "verif"},
		Env:        append(os.Environ(), "GOFLAGS=-mod=mod", "GOPROXY=off", "GOSUMDB=off", "GOTOOLCHAIN=local"),
	}
	pkgs, err := packages.Load(cfg, "./...")
	if err != nil {
		return nil, err
	}
	nerr := 0
	packages.Visit(pkgs, nil, func(p *packages.Package) {
		if strings.HasPrefix(p.PkgPath, repoMod) {
			for _, e := range p.Errors {
				fmt.Fprintln(os.Stderr, "load error:", e)
				nerr++
			}
		}
	})
	if nerr > 0 {
		return nil, fmt.Errorf("%d package load errors under %s", nerr, repo)
	}
	prog, spkgs := ssautil.AllPackages(pkgs, ssa.GlobalDebug)
	prog.Build()
	P := &Program{Pkgs: pkgs, Prog: prog, SPkgs: spkgs,
		Funcs: map[string]*ssa.Function{}, ByPath: map[string]*packages.Package{},
		Contracts: map[string]*FuncContract{}, Specs: map[string]*SpecFunc{},
		Ifaces: map[string]*IfaceSpec{}, Globals: map[string]*GlobalFact{}, TypeInvs: map[string][]*TypeInv{},
		AllTypes: map[string]*types.Package{}}
	packages.Visit(pkgs, nil, func(p *packages.Package) {
		P.ByPath[p.PkgPath] = p
		if p.Types != nil {
			P.AllTypes[p.PkgPath] = p.Types
		}
	})
	for f := range ssautil.AllFunctions(prog) {
		if f.Pkg == nil && f.Parent() == nil && f.Synthetic != "" {
			// wrappers, bound methods: keep them out unless needed
		}
		P.Funcs[f.String()] = f
	}
	// contracts in /repo
	for _, p := range pkgs {
		for i, file := range p.Syntax {
			name := filepath.Base(p.CompiledGoFiles[i])
			if !strings.HasPrefix(name, "zz_verif_") {
				continue
			}
			if err := P.parseContractFile(p, file, p.CompiledGoFiles[i], false); err != nil {
				return nil, err
			}
		}
	}
	// assumed library contracts
	libs, _ := filepath.Glob(filepath.Join(libDir, "*.spec"))
	sort.Strings(libs)
	for _, lf := range libs {
		if err := P.parseLibFile(lf); err != nil {
			return nil, err
		}
	}
	return P, nil
}

// contractLines extracts the //@ lines of a file with their line numbers.
type cline struct {
	text string
	file string
	line int
}

func contractLinesOfAST(p *packages.Package, f *ast.File, fname string) []cline {
	var out []cline
	for _, cg := range f.Comments {
		for _, c := range cg.List {
			if strings.HasPrefix(c.Text, "//@") {
				pos := p.Fset.Position(c.Slash)
				out = append(out, cline{strings.TrimPrefix(c.Text, "//@"), fname, pos.Line})
			}
		}
	}
	return out
}

// importAliases collects name -> package for every import used by the files of p.
func importAliases(p *packages.Package) map[string]*types.Package {
	m := map[string]*types.Package{}
	for _, f := range p.Syntax {
		for _, is := range f.Imports {
			path := strings.Trim(is.Path.Value, `"`)
			ip := p.Imports[path]
			if ip == nil || ip.Types == nil {
				continue
			}
			name := ip.Types.Name()
			if is.Name != nil {
				name = is.Name.Name
			}
			if name != "_" && name != "." {
				m[name] = ip.Types
			}
		}
	}
	return m
}
