package main

import (
	"go/token"
	"fmt"
	"go/ast"
	"go/types"
	"strings"

	"golang.org/x/tools/go/ssa"
)

var ghostGroups = map[string][]string{
	"ghost_fsw":  {"$fsw.n", "$fsw.path", "$fsw.data"},
	"ghost_out":  {"$out.n", "$out.data"},
	"ghost_warn": {"$warn.n", "$warn.text", "$warn.sink"},
	"ghost_pf":   {"$pf.n", "$pf.name"},
}

var ghostSorts = map[string]string{
	"$it.next": "Int", "$it.stopped": "Bool",
	"$fsw.n": "Int", "$fsw.path": "(Array Int String)", "$fsw.data": "(Array Int Slice)",
	"$out.n": "Int", "$out.data": "(Array Int String)",
	"$warn.n": "Int", "$warn.text": "(Array Int String)", "$warn.sink": "(Array Int Int)",
	"$pf.n": "Int", "$pf.name": "(Array Int String)",
}

var effectGhosts = map[string][]string{
	"fs-write": ghostGroups["ghost_fsw"],
	"stdout":   ghostGroups["ghost_out"],
	"warn":     ghostGroups["ghost_warn"],
	"parsefile": ghostGroups["ghost_pf"],
}

var effectClasses = []string{"fs-write", "fs-read", "stdout", "stderr", "log", "env-read", "random", "clock", "exit", "warn", "parsefile", "any"}

type builtinModel struct {
	modBld  bool
	effects []string
	ghosts  []string
	fn      func(fr *Frame, ci ssa.CallInstruction, c *ssa.CallCommon) []*Term
}

var builtinModels map[string]*builtinModel

func init() {
	builtinModels = map[string]*builtinModel{
		"(*strings.Builder).WriteString": {modBld: true, fn: modelWriteString},
		"(*bytes.Buffer).WriteString":    {modBld: true, fn: modelWriteString},
		"(*strings.Builder).String":      {fn: modelBuilderString},
		"(*bytes.Buffer).String":         {fn: modelBuilderString},
		"(*bytes.Buffer).Bytes":          {fn: modelBufferBytes},
		"strings.HasPrefix": {fn: func(fr *Frame, ci ssa.CallInstruction, c *ssa.CallCommon) []*Term {
			return []*Term{A("str.prefixof", fr.val(c.Args[1]), fr.val(c.Args[0]))}
		}},
		"strings.HasSuffix": {fn: func(fr *Frame, ci ssa.CallInstruction, c *ssa.CallCommon) []*Term {
			return []*Term{A("str.suffixof", fr.val(c.Args[1]), fr.val(c.Args[0]))}
		}},
		"strings.Contains": {fn: func(fr *Frame, ci ssa.CallInstruction, c *ssa.CallCommon) []*Term {
			return []*Term{A("str.contains", fr.val(c.Args[0]), fr.val(c.Args[1]))}
		}},
		"fmt.Sprintf": {fn: modelSprintf},
		"fmt.Errorf":  {fn: modelErrorf},
		"errors.New":  {fn: modelErrorsNew},
		"fmt.Println": {effects: []string{"stdout"}, ghosts: ghostGroups["ghost_out"], fn: modelPrintln},
		"fmt.Printf":  {effects: []string{"stdout"}, ghosts: ghostGroups["ghost_out"], fn: modelPrintf},
		"fmt.Fprintln": {effects: []string{"stderr"}, fn: modelFprint},
		"fmt.Fprint":   {effects: []string{"stderr"}, fn: modelFprint},
		"fmt.Fprintf":  {effects: []string{"stderr"}, fn: modelFprint},
	}
}

func (fr *Frame) bld(st *State) *Term { return st.Get("Bld", arraySort("Int", "String")) }

func modelWriteString(fr *Frame, ci ssa.CallInstruction, c *ssa.CallCommon) []*Term {
	st := fr.cur
	recv, s := fr.val(c.Args[0]), fr.val(c.Args[1])
	fr.enc.oblige("safety:nil", fr.where(ci), "nil builder", nil, fr.curPC, Not(Eq(recv, IntLit(0))))
	h := fr.bld(st)
	st.Set("Bld", Store(h, recv, A("str.++", Select(h, recv), s)))
	return []*Term{A("str.len", s), Leaf("any_nil")}
}

func modelBuilderString(fr *Frame, ci ssa.CallInstruction, c *ssa.CallCommon) []*Term {
	recv := fr.val(c.Args[0])
	return []*Term{fr.enc.define("bs", "String", Select(fr.bld(fr.cur), recv))}
}

func modelBufferBytes(fr *Frame, ci ssa.CallInstruction, c *ssa.CallCommon) []*Term {
	enc := fr.enc
	recv := fr.val(c.Args[0])
	r := enc.declare("bytes", "Slice")
	fr.bumpCnt()
	fr.assumeWF(r, types.NewSlice(types.Typ[types.Byte]), fr.cur, 0)
	f := enc.w.ufunc("str_of_bytes", []string{"Slice"}, "String")
	enc.assume(Eq(A(f, r), Select(fr.bld(fr.cur), recv)), "Buffer.Bytes holds the buffer contents")
	enc.w.assumptions["(*bytes.Buffer).Bytes returns the accumulated contents (library)"] = true
	return []*Term{r}
}

func (fr *Frame) bumpCnt() {
	enc := fr.enc
	cnt := fr.cur.Get("$cnt", "Int")
	n := enc.declare("cnt", "Int")
	enc.assume(Le(cnt, n), "allocation counter monotone")
	fr.cur.Set("$cnt", n)
}

// varargs recovers the values packed into a variadic []any argument.
func (fr *Frame) varargs(v ssa.Value) ([]ssa.Value, bool) {
	if c, ok := v.(*ssa.Const); ok && c.Value == nil {
		return nil, true
	}
	sl, ok := v.(*ssa.Slice)
	if !ok {
		return nil, false
	}
	al, ok := sl.X.(*ssa.Alloc)
	if !ok {
		return nil, false
	}
	at, ok := al.Type().(*types.Pointer).Elem().Underlying().(*types.Array)
	if !ok {
		return nil, false
	}
	out := make([]ssa.Value, at.Len())
	for _, ref := range *al.Referrers() {
		ia, ok := ref.(*ssa.IndexAddr)
		if !ok {
			continue
		}
		ic, ok := ia.Index.(*ssa.Const)
		if !ok {
			return nil, false
		}
		for _, r2 := range *ia.Referrers() {
			if s, ok := r2.(*ssa.Store); ok && s.Addr == ia {
				out[ic.Int64()] = s.Val
			}
		}
	}
	for _, o := range out {
		if o == nil {
			return nil, false
		}
	}
	return out, true
}

// format expands a constant format string over the packed arguments.
func (fr *Frame) format(fmtV ssa.Value, args []ssa.Value, known bool) *Term {
	enc := fr.enc
	w := enc.w
	fc, ok := fmtV.(*ssa.Const)
	if !ok || !known {
		if fr.fmtSlice != nil {
			f := w.ufunc("sprintfU", []string{"String", "Slice", arraySort("Int", "Any")}, "String")
			h := fr.cur.Get("S.any", arraySort("Int", arraySort("Int", "Any")))
			sl := fr.val(fr.fmtSlice)
			return A(f, fr.val(fmtV), sl, Select(h, A("s_base", sl)))
		}
		w.assumptions["a non-constant format string with unknown arguments yields an unconstrained string"] = true
		return enc.declare("fmtres", "String")
	}
	f := constantString(fc)
	var parts []*Term
	lit := strings.Builder{}
	flush := func() {
		if lit.Len() > 0 {
			parts = append(parts, StrLit(lit.String()))
			lit.Reset()
		}
	}
	ai := 0
	for i := 0; i < len(f); i++ {
		if f[i] != '%' {
			lit.WriteByte(f[i])
			continue
		}
		i++
		if i >= len(f) {
			break
		}
		if f[i] == '%' {
			lit.WriteByte('%')
			continue
		}
		verb := ""
		for i < len(f) && strings.IndexByte("#+- 0123456789.", f[i]) >= 0 {
			verb += string(f[i])
			i++
		}
		if i >= len(f) {
			break
		}
		verb += string(f[i])
		flush()
		if ai >= len(args) {
			parts = append(parts, StrLit("%!"+verb+"(MISSING)"))
			continue
		}
		parts = append(parts, fr.formatArg(verb, args[ai]))
		ai++
	}
	flush()
	switch len(parts) {
	case 0:
		return StrLit("")
	case 1:
		return parts[0]
	}
	return A("str.++", parts...)
}

func (fr *Frame) formatArg(verb string, a ssa.Value) *Term {
	w := fr.enc.w
	inner := a
	if mi, ok := a.(*ssa.MakeInterface); ok {
		inner = mi.X
	}
	t := inner.Type()
	so := w.sortOf(t)
	_, isNamed := t.(*types.Named)
	hasStringer := false
	if isNamed {
		ms := types.NewMethodSet(t)
		hasStringer = ms.Lookup(nil, "String") != nil || ms.Lookup(nil, "Error") != nil
	}
	switch verb {
	case "v", "s":
		if so == "String" && !hasStringer {
			return fr.val(inner)
		}
		if so == "Int" && verb == "v" && !hasStringer {
			if b, ok := t.Underlying().(*types.Basic); ok && b.Info()&types.IsInteger != 0 {
				return A(w.ufunc("itoa", []string{"Int"}, "String"), fr.val(inner))
			}
		}
	case "d":
		if so == "Int" {
			return A(w.ufunc("itoa", []string{"Int"}, "String"), fr.val(inner))
		}
	}
	f := w.ufunc("spec_fmt_"+mangle(verb), []string{"Any"}, "String")
	return A(f, fr.val(a))
}

func modelSprintf(fr *Frame, ci ssa.CallInstruction, c *ssa.CallCommon) []*Term {
	args, ok := fr.varargs(c.Args[1])
	fr.fmtSlice = c.Args[1]
	defer func() { fr.fmtSlice = nil }()
	return []*Term{fr.enc.define("sprintf", "String", fr.format(c.Args[0], args, ok))}
}

func (fr *Frame) newError(msg *Term) *Term {
	enc := fr.enc
	e := enc.declare("err", "Any")
	enc.assume(Not(Eq(e, Leaf("any_nil"))), "constructed error is non-nil")
	f := enc.w.ufunc("spec_errmsg", []string{"Any"}, "String")
	enc.assume(Eq(A(f, e), msg), "error text")
	return e
}

func modelErrorf(fr *Frame, ci ssa.CallInstruction, c *ssa.CallCommon) []*Term {
	args, ok := fr.varargs(c.Args[1])
	fr.fmtSlice = c.Args[1]
	defer func() { fr.fmtSlice = nil }()
	fr.bumpCnt()
	return []*Term{fr.newError(fr.format(c.Args[0], args, ok))}
}

func modelErrorsNew(fr *Frame, ci ssa.CallInstruction, c *ssa.CallCommon) []*Term {
	fr.bumpCnt()
	return []*Term{fr.newError(fr.val(c.Args[0]))}
}

func (fr *Frame) bumpFx(class string) {
	enc := fr.enc
	name := "$fx." + class
	cur := fr.cur.Get(name, "Int")
	fr.cur.Set(name, enc.define("fx", "Int", Add(cur, IntLit(1))))
}

func (fr *Frame) logOut(text *Term) {
	st := fr.cur
	n := st.Get("$out.n", "Int")
	d := st.Get("$out.data", "(Array Int String)")
	st.Set("$out.data", Store(d, n, text))
	st.Set("$out.n", fr.enc.define("outn", "Int", Add(n, IntLit(1))))
	fr.bumpFx("stdout")
}

// println-style joining: operands separated by spaces, newline appended
func (fr *Frame) sprintln(args []ssa.Value, known bool) *Term {
	if !known {
		return fr.enc.declare("println", "String")
	}
	var parts []*Term
	for i, a := range args {
		if i > 0 {
			parts = append(parts, StrLit(" "))
		}
		parts = append(parts, fr.formatArg("v", a))
	}
	parts = append(parts, StrLit("\n"))
	if len(parts) == 1 {
		return parts[0]
	}
	return A("str.++", parts...)
}

func modelPrintln(fr *Frame, ci ssa.CallInstruction, c *ssa.CallCommon) []*Term {
	args, ok := fr.varargs(c.Args[0])
	fr.logOut(fr.sprintln(args, ok))
	return []*Term{fr.enc.declare("n", "Int"), fr.enc.declare("werr", "Any")}
}

func modelPrintf(fr *Frame, ci ssa.CallInstruction, c *ssa.CallCommon) []*Term {
	args, ok := fr.varargs(c.Args[1])
	fr.logOut(fr.format(c.Args[0], args, ok))
	return []*Term{fr.enc.declare("n", "Int"), fr.enc.declare("werr", "Any")}
}

// fmt.Fprint(ln)(w, ...): the writer decides the effect class.
// builderWriter: the io.Writer argument of fmt.Fprint* is a *strings.Builder / *bytes.Buffer.
func builderWriter(v ssa.Value) (ssa.Value, bool) {
	if mi, ok := v.(*ssa.MakeInterface); ok {
		if pt, ok := mi.X.Type().Underlying().(*types.Pointer); ok && isBuilderType(pt.Elem()) {
			return mi.X, true
		}
	}
	return nil, false
}

func modelFprint(fr *Frame, ci ssa.CallInstruction, c *ssa.CallCommon) []*Term {
	name := c.StaticCallee().Name()
	if b, ok := builderWriter(c.Args[0]); ok {
		// writing into a builder is WriteString of the formatted text
		var text *Term
		switch name {
		case "Fprintf":
			args, known := fr.varargs(c.Args[2])
			fr.fmtSlice = c.Args[2]
			text = fr.format(c.Args[1], args, known)
			fr.fmtSlice = nil
		case "Fprintln":
			args, known := fr.varargs(c.Args[1])
			text = fr.sprintln(args, known)
		default:
			args, known := fr.varargs(c.Args[1])
			allStr := known
			for _, a := range args {
				if mi, ok := a.(*ssa.MakeInterface); !ok || fr.enc.w.sortOf(mi.X.Type()) != "String" {
					allStr = false
				}
			}
			if allStr {
				text = StrLit("")
				for _, a := range args {
					text = A("str.++", text, fr.val(a.(*ssa.MakeInterface).X))
				}
			} else {
				text = fr.enc.declare("fprint", "String")
			}
		}
		st := fr.cur
		recv := fr.val(b)
		fr.enc.oblige("safety:nil", fr.where(ci), "nil builder", nil, fr.curPC, Not(Eq(recv, IntLit(0))))
		h := fr.bld(st)
		text = fr.enc.define("fprint_text", "String", text)
		st.Set("Bld", Store(h, recv, A("str.++", Select(h, recv), text)))
		return []*Term{A("str.len", text), Leaf("any_nil")}
	}
	class := "any"
	if name == "Fprintf" {
		// only the effect is modelled for other writers
		if mi, ok := c.Args[0].(*ssa.MakeInterface); ok {
			if ld, ok := mi.X.(*ssa.UnOp); ok {
				if g, ok := ld.X.(*ssa.Global); ok && g.Pkg.Pkg.Path() == "os" && g.Name() == "Stderr" {
					class = "stderr"
				}
			}
		}
		if class == "any" {
			fr.enc.unsup("fmt.Fprintf to a writer that is neither os.Stderr nor a strings.Builder / bytes.Buffer")
		}
		fr.bumpFx(class)
		return []*Term{fr.enc.declare("n", "Int"), fr.enc.declare("werr", "Any")}
	}
	if mi, ok := c.Args[0].(*ssa.MakeInterface); ok {
		if ld, ok := mi.X.(*ssa.UnOp); ok {
			if g, ok := ld.X.(*ssa.Global); ok && g.Pkg.Pkg.Path() == "os" {
				switch g.Name() {
				case "Stderr":
					class = "stderr"
				case "Stdout":
					class = "stdout"
				}
			}
		}
	}
	if class == "stdout" {
		args, ok := fr.varargs(c.Args[1])
		if c.StaticCallee().Name() == "Fprintln" {
			fr.logOut(fr.sprintln(args, ok))
		} else {
			fr.logOut(fr.enc.declare("fprint", "String"))
		}
	} else {
		fr.bumpFx(class)
	}
	return []*Term{fr.enc.declare("n", "Int"), fr.enc.declare("werr", "Any")}
}

// ---------------------------------------------------------------------------------------------

func (fr *Frame) calleeKey(c *ssa.CallCommon) (string, *ssa.Function) {
	if c.IsInvoke() {
		return c.Method.FullName(), nil
	}
	if f := c.StaticCallee(); f != nil {
		return f.String(), f
	}
	return "", nil
}

func (fr *Frame) call(ci ssa.CallInstruction, c *ssa.CallCommon) []*Term {
	enc := fr.enc
	w := enc.w
	fr.atCallChecks(ci, c)
	if b, ok := c.Value.(*ssa.Builtin); ok {
		return fr.builtin(ci, c, b)
	}
	fr.callOrd++
	key, callee := fr.calleeKey(c)
	sig := c.Signature()
	var resTypes []types.Type
	for i := 0; i < sig.Results().Len(); i++ {
		resTypes = append(resTypes, sig.Results().At(i).Type())
	}
	if key != "" {
		if m := builtinModels[key]; m != nil {
			w.libUsed[key+" (built-in model)"] = true
			return m.fn(fr, ci, c)
		}
		if fc := w.P.Contracts[key]; fc != nil && fc.Iterates != nil && !c.IsInvoke() {
			// iterator with a known function literal: expand into a loop over the callback
			cbIdx := -1
			for i, pn := range fc.Params {
				if pn == fc.Iterates.Param {
					cbIdx = i
				}
			}
			if cbIdx >= 0 && cbIdx < len(c.Args) {
				if cr := fr.closureOf(c.Args[cbIdx]); cr != nil {
					fc.Used = true
					fr.expandIterator(fc, key, ci, c, cbIdx, cr)
					return nil
				}
			}
		}
		if fc := w.P.Contracts[key]; fc != nil && !fc.Inline {
			fc.Used = true
			var args []*Term
			var argTypes []types.Type
			if c.IsInvoke() {
				args = append(args, fr.val(c.Value))
				argTypes = append(argTypes, c.Value.Type())
				enc.oblige("safety:nil", fr.where(ci), "method call on nil interface", nil, fr.curPC, Not(Eq(args[0], Leaf("any_nil"))))
			}
			copyOut := fr.interiorArgsIn(c, callee)
			for _, a := range c.Args {
				args = append(args, fr.val(a))
				argTypes = append(argTypes, a.Type())
			}
			res := fr.applyContract(fc, key, ci, args, argTypes, resTypes)
			copyOut()
			return res
		}
	}
	// interface method with a specification function (iface clause)
	if c.IsInvoke() {
		if is, ok := w.P.Ifaces[key]; ok {
			sf := w.P.Specs[is.Spec]
			if sf == nil {
				enc.unsup("iface spec %s not found", is.Spec)
			}
			recv := fr.val(c.Value)
			enc.oblige("safety:nil", fr.where(ci), "method call on nil interface", nil, fr.curPC, Not(Eq(recv, Leaf("any_nil"))))
			env := fr.env(fr.cur)
			env.where = fr.where(ci)
			tvs := []TV{{recv, c.Value.Type()}}
			for _, a := range c.Args {
				tvs = append(tvs, TV{fr.val(a), a.Type()})
			}
			var r TV
			func() {
				defer func() {
					if rr := recover(); rr != nil {
						if se, ok := rr.(specErr); ok {
							panic(unsupportedErr{"contract error: " + se.msg})
						}
						panic(rr)
					}
				}()
				if is.Requires != "" {
					rf := w.P.Specs[is.Requires]
					if rf == nil {
						enc.unsup("iface requires %s not found", is.Requires)
					}
					rq := env.applySpec(rf, tvs[:1])
					enc.oblige("call:requires", fr.where(ci), shortTypeName(key)+" requires "+is.Requires+"(receiver)", nil, fr.curPC, rq.T)
				}
				r = env.applySpec(sf, tvs)
			}()
			return []*Term{enc.define("iface_"+c.Method.Name(), w.sortOf(resTypes[0]), r.T)}
		}
	}
	// closures: immediately invoked or known in this frame
	if callee != nil && callee.Blocks != nil {
		if mc, ok := c.Value.(*ssa.MakeClosure); ok {
			return fr.inline(callee, mc, fr, c.Args, ci)
		}
	}
	// the callback parameter of an iterator function under verification
	if !c.IsInvoke() && callee == nil {
		if p, pf := fr.originParam(c.Value); p != nil && pf.fc != nil && pf.fc.Iterates != nil && pf.parent == nil {
			for i, pp := range pf.fn.Params {
				if pp == p && i < len(pf.fc.Params) && pf.fc.Params[i] == pf.fc.Iterates.Param {
					return fr.protocolCall(pf, ci, c, resTypes)
				}
			}
		}
	}
	// function values with a declared behaviour (results of contracted calls, parameters)
	if !c.IsInvoke() && callee == nil {
		if bname := fr.behaviourOf(c.Value); bname != "" {
			bc := w.P.Contracts["behaviour:"+bname]
			if bc == nil {
				enc.unsup("behaviour %s not declared", bname)
			}
			bc.Used = true
			var args []*Term
			var argTypes []types.Type
			for _, a := range c.Args {
				args = append(args, fr.val(a))
				argTypes = append(argTypes, a.Type())
			}
			enc.oblige("safety:nil", fr.where(ci), "call of nil function value", nil, fr.curPC, Not(Eq(fr.val(c.Value), IntLit(0))))
			return fr.applyContract(bc, "behaviour:"+bname, ci, args, argTypes, resTypes)
		}
	}
	if !c.IsInvoke() && callee == nil {
		if cr := fr.closureOf(c.Value); cr != nil {
			fn := cr.mc.Fn.(*ssa.Function)
			return fr.inline(fn, cr.mc, cr.fr, c.Args, ci)
		}
	}
	// uncontracted call
	return fr.uncontracted(ci, c, key, callee, resTypes)
}

func (fr *Frame) closureOf(v ssa.Value) *closureRef {
	if mc, ok := fr.closures[v]; ok {
		return &closureRef{mc: mc, fr: fr}
	}
	if fv, ok := v.(*ssa.FreeVar); ok {
		return fr.bindClos[fv]
	}
	if p, ok := v.(*ssa.Parameter); ok {
		return fr.paramClos[p]
	}
	return nil
}

func (fr *Frame) uncontracted(ci ssa.CallInstruction, c *ssa.CallCommon, key string, callee *ssa.Function, resTypes []types.Type) []*Term {
	enc := fr.enc
	w := enc.w
	name := key
	if name == "" {
		name = "dynamic call at " + fr.where(ci)
	}
	w.uncontracted[name] = true
	if c.IsInvoke() {
		enc.oblige("safety:nil", fr.where(ci), "method call on nil interface", nil, fr.curPC, Not(Eq(fr.val(c.Value), Leaf("any_nil"))))
	}
	inRepo := callee != nil && callee.Pkg != nil && strings.HasPrefix(callee.Pkg.Pkg.Path(), repoMod)
	if inRepo {
		// default precondition of /repo functions: pointer arguments are non-nil
		for i, a := range c.Args {
			if _, ok := a.Type().Underlying().(*types.Pointer); ok {
				enc.oblige("call:nonnil", fr.where(ci), fmt.Sprintf("argument %d of %s must not be nil (default precondition)", i, shortTypeName(key)), nil,
					fr.curPC, Not(Eq(fr.val(a), IntLit(0))))
			}
		}
	}
	// evaluate arguments (so unsupported values surface) and havoc everything
	for _, a := range c.Args {
		if _, ok := fr.lvals[a]; ok {
			continue
		}
		fr.val(a)
	}
	beforeHavoc := fr.cur.clone()
	fr.cur.havocAll()
	fr.assumeGlobals(fr.cur)
	fr.keepPrivate(beforeHavoc, fr.cur)
	var res []*Term
	for i, t := range resTypes {
		r := enc.declare(fmt.Sprintf("r%d_%s", i, ciName(ci)), w.sortOf(t))
		fr.assumeWF(r, t, fr.cur, 1)
		res = append(res, r)
	}
	return res
}

// applyContract performs a modular call: check requires, havoc the frame, assume ensures.
func (fr *Frame) applyContract(fc *FuncContract, key string, ci ssa.CallInstruction, args []*Term, argTypes []types.Type, resTypes []types.Type) []*Term {
	enc := fr.enc
	w := enc.w
	st := fr.cur
	pc := fr.curPC
	where := fr.where(ci)
	short := shortTypeName(key)
	if fc.Lib {
		w.libUsed[key] = true
	}
	if len(fc.Params) != len(args) {
		enc.unsup("contract %s names %d parameters, call has %d arguments", key, len(fc.Params), len(args))
	}
	env := &Env{w: w, vars: map[string]TV{}, state: st, scope: fc.Scope, where: fc.File}
	for i, p := range fc.Params {
		env.vars[p] = TV{args[i], argTypes[i]}
	}
	// default precondition: pointer parameters non-nil (for /repo functions)
	if !fc.Lib {
		for i, p := range fc.Params {
			if _, ok := argTypes[i].Underlying().(*types.Pointer); ok && !fc.Nilable[p] {
				enc.oblige("call:nonnil", where, fmt.Sprintf("%s: %s must not be nil", short, p), nil, pc, Not(Eq(args[i], IntLit(0))))
			}
		}
	}
	for _, rq := range fc.Requires {
		env.where = rq.Where()
		t := fr.safeTr(env, rq)
		enc.oblige("call:requires", where, short+" requires "+rq.Text, rq.Tags, pc, t)
	}
	// termination of recursion: callee's measure strictly below the measure of the function under verification
	if fc.Decreases != nil {
		root := fr
		for root.parent != nil {
			root = root.parent
		}
		// only between functions of one recursion group: the callee can call the function under verification back
		if root.fc != nil && root.fc.Decreases != nil && root.old != nil && reachesFn(w.P.Funcs[key], root.fn, map[*ssa.Function]bool{}) {
			env.where = fc.Decreases.Where()
			callee := fr.safeTrInt(env, fc.Decreases)
			env0 := &Env{w: w, vars: map[string]TV{}, state: root.old, old: root.old, scope: root.fc.Scope, where: root.fc.Decreases.Where()}
			for n, tv := range root.paramTV {
				env0.vars[n] = tv
			}
			caller := fr.safeTrInt(env0, root.fc.Decreases)
			enc.oblige("call:decreases", where, fmt.Sprintf("%s: measure %s is non-negative and smaller than the caller's (%s)", short, fc.Decreases.Text, root.fc.Decreases.Text),
				[]string{"C14"}, pc, And(Le(IntLit(0), callee), Lt(callee, caller)))
		}
	}
	fr.bridgeFormat(ci)
	pre := st.clone()
	// frame
	if !fc.Pure {
		fr.havocAssigns(fc, env, st)
		fr.bumpCnt()
	}
	for _, fx := range fc.Effects {
		if fx == "any" {
			for _, cl := range effectClasses {
				fr.havocFx(cl)
			}
			continue
		}
		fr.havocFx(fx)
	}
	if len(fc.Assigns) > 0 {
		fr.assumeGlobals(st)
	}
	// results
	var res []*Term
	if fc.Pure {
		pf := w.pureByKey[key]
		for i, t := range resTypes {
			tvs := make([]TV, len(args))
			for j := range args {
				tvs[j] = TV{args[j], argTypes[j]}
			}
			r := w.applyPureN(env, pf, tvs, i)
			_ = t
			res = append(res, enc.define("pure_"+ciName(ci), w.sortOf(t), r))
		}
	} else {
		for i, t := range resTypes {
			r := enc.declare(fmt.Sprintf("r%d_%s", i, ciName(ci)), w.sortOf(t))
			res = append(res, r)
		}
	}
	for i, t := range resTypes {
		fr.assumeWF(res[i], t, st, 1)
	}
	post := &Env{w: w, vars: map[string]TV{}, state: st, old: pre, scope: fc.Scope}
	for i, p := range fc.Params {
		post.vars[p] = TV{args[i], argTypes[i]}
	}
	for i, r := range fc.Results {
		if i < len(res) {
			post.vars[r] = TV{res[i], resTypes[i]}
		}
	}
	for _, en := range fc.Ensures {
		post.where = en.Where()
		t := fr.safeTr(post, en)
		enc.assume(Implies(pc, t), "ensures of "+short+" "+en.Where())
	}
	// explicit assumptions of the calling function about what this library call leaves behind
	if fr.fc != nil {
		for _, aa := range fr.fc.AfterAssume {
			if !strings.HasSuffix(key, aa.Kind) {
				continue
			}
			aenv := fr.env(st)
			aenv.where = aa.Where()
			aenv.resolve = func(n string) (TV, bool) { return fr.resolveNameAt(n, nil, ci) }
			// $res0, $res1, ...: the results of this call
			if sig, ok := ci.Common().Value.Type().Underlying().(*types.Signature); ok || ci.Common().IsInvoke() {
				if ci.Common().IsInvoke() {
					sig = ci.Common().Method.Type().(*types.Signature)
				}
				for ri := 0; ri < sig.Results().Len() && ri < len(res); ri++ {
					aenv.vars[fmt.Sprintf("ghost_res%d", ri)] = TV{res[ri], sig.Results().At(ri).Type()}
				}
			}
			fr.resolveState = st
			t := fr.safeTr(aenv, aa)
			fr.resolveState = nil
			enc.assume(Implies(pc, t), "ASSUMED after "+short+": "+aa.Text)
			w.assumptions["ASSUMED in "+shortTypeName(fr.fn.String())+" after calling "+short+": "+aa.Text] = true
		}
	}
	// os.Exit does not return (a function that merely MAY exit carries the effect class but returns)
	if key == "os.Exit" {
		fr.curPC = tFalse
	}
	return res
}

func (fr *Frame) havocFx(class string) {
	enc := fr.enc
	st := fr.cur
	name := "$fx." + class
	cur := st.Get(name, "Int")
	n := enc.declare("fx_"+class, "Int")
	enc.assume(Le(cur, n), "effect counter monotone")
	st.Set(name, n)
	for _, g := range effectGhosts[class] {
		so := ghostSorts[g]
		old := st.Get(g, so)
		nv := enc.declare("g_"+g, so)
		if so == "Int" {
			enc.assume(Le(old, nv), "ghost log monotone")
		}
		st.Set(g, nv)
	}
}

// havocAssigns applies a callee's assigns clause to the caller's state.
func (fr *Frame) havocAssigns(fc *FuncContract, env0 *Env, st *State) {
	enc := fr.enc
	w := enc.w
	if fc.AssignsAny {
		// no heap frame: everything but the effect counters and ghost logs is unknown afterwards
		keep := map[string]*Term{}
		for k, so := range ghostSorts {
			keep[k] = st.Get(k, so)
		}
		for _, c := range effectClasses {
			keep["$fx."+c] = st.Get("$fx."+c, "Int")
		}
		before := st.clone()
		st.havocAll()
		fr.assumeGlobals(st)
		fr.keepPrivate(before, st)
		for k, v := range keep {
			st.Set(k, v)
		}
		return
	}
	// every target is evaluated in the state before the call (not in the partially havocked one)
	snap := st.clone()
	envc := *env0
	envc.state = snap
	env := &envc
	for _, a := range fc.Assigns {
		env.where = a.Where()
		func() {
			defer func() {
				if r := recover(); r != nil {
					if se, ok := r.(specErr); ok {
						panic(unsupportedErr{"contract error: " + se.msg})
					}
					panic(r)
				}
			}()
			for _, tgt := range fr.assignTargets(a.Expr, env) {
				if tgt.whole {
					so := w.heapSortOfName(tgt.name)
					if so == "" {
						enc.unsup("assigns of heap variable %s whose sort is unknown", tgt.name)
					}
					old := st.Get(tgt.name, so)
					nv := enc.declare("hv_"+tgt.name, so)
					if so == "Int" && isMonotoneGhost(tgt.name) {
						enc.assume(Le(old, nv), "monotone")
					}
					st.Set(tgt.name, nv)
				} else {
					cur := st.Get(tgt.name, tgt.sort)
					_, el := splitSortPair(tgt.sort[7 : len(tgt.sort)-1])
					fv := enc.declare("hv_"+tgt.name, el)
					st.Set(tgt.name, Store(cur, tgt.ref, fv))
				}
			}
		}()
	}
}

type assignTarget struct {
	name  string
	sort  string
	ref   *Term
	whole bool
}

// assignTargets resolves one assigns item to heap variables (and the reference written).
func (fr *Frame) assignTargets(x ast.Expr, env *Env) []assignTarget {
	w := fr.enc.w
	switch e := x.(type) {
	case *ast.SelectorExpr:
		if id, ok := e.X.(*ast.Ident); ok && env.scope != nil {
			if _, bound := env.lookup(id.Name); !bound {
				if pkg := env.scope.Aliases[id.Name]; pkg != nil {
					if v, ok := pkg.Scope().Lookup(e.Sel.Name).(*types.Var); ok {
						name := "G." + v.Pkg().Path() + "." + v.Name()
						env.heap(env.state, name, w.sortOf(v.Type()))
						return []assignTarget{{name: name, whole: true}}
					}
				}
			}
		}
		base := env.tr(e.X)
		pt, ok := base.Ty.Underlying().(*types.Pointer)
		if !ok {
			env.fail("assigns %s: base is not a pointer", types.ExprString(x))
		}
		s := w.structSort(pt.Elem())
		j := s.fieldIndex(e.Sel.Name)
		if j < 0 {
			env.fail("assigns: no field %s", e.Sel.Name)
		}
		name := heapFieldName(s, j)
		so := arraySort("Int", s.Fields[j].Sort)
		env.heap(env.state, name, so)
		return []assignTarget{{name: name, sort: so, ref: base.T}}
	case *ast.StarExpr:
		base := env.tr(e.X)
		pt, ok := base.Ty.Underlying().(*types.Pointer)
		if !ok {
			env.fail("assigns *%s: not a pointer", types.ExprString(e.X))
		}
		if isBuilderType(pt.Elem()) {
			return []assignTarget{{name: "Bld", sort: arraySort("Int", "String"), ref: base.T}}
		}
		if _, ok := pt.Elem().Underlying().(*types.Struct); ok {
			s := w.structSort(pt.Elem())
			var out []assignTarget
			for j := range s.Fields {
				name := heapFieldName(s, j)
				so := arraySort("Int", s.Fields[j].Sort)
				env.heap(env.state, name, so)
				out = append(out, assignTarget{name: name, sort: so, ref: base.T})
			}
			return out
		}
		so := w.sortOf(pt.Elem())
		name := heapBoxName(so)
		env.heap(env.state, name, arraySort("Int", so))
		return []assignTarget{{name: name, sort: arraySort("Int", so), ref: base.T}}
	case *ast.Ident:
		if gs, ok := ghostGroups[e.Name]; ok {
			var out []assignTarget
			for _, g := range gs {
				env.heap(env.state, g, ghostSorts[g])
				out = append(out, assignTarget{name: g, whole: true})
			}
			return out
		}
		if env.scope != nil && env.scope.Pkg != nil {
			if v, ok := env.scope.Pkg.Scope().Lookup(e.Name).(*types.Var); ok {
				name := "G." + v.Pkg().Path() + "." + v.Name()
				env.heap(env.state, name, w.sortOf(v.Type()))
				return []assignTarget{{name: name, whole: true}}
			}
		}
		env.fail("assigns %s: unknown location", e.Name)
	case *ast.CallExpr:
		if id, ok := e.Fun.(*ast.Ident); ok && len(e.Args) == 1 {
			switch id.Name {
			case "all":
				// all(T.f): field f of every object of struct type T
				sel, ok := e.Args[0].(*ast.SelectorExpr)
				if !ok {
					env.fail("all(T.f) expected")
				}
				t, err := resolveTypeExpr(sel.X, env.scope, w.P)
				if err != nil {
					env.fail("%v", err)
				}
				s := w.structSort(t)
				j := s.fieldIndex(sel.Sel.Name)
				if j < 0 {
					env.fail("no field %s", sel.Sel.Name)
				}
				name := heapFieldName(s, j)
				env.heap(env.state, name, arraySort("Int", s.Fields[j].Sort))
				return []assignTarget{{name: name, whole: true}}
			case "boxes":
				t, err := resolveTypeExpr(e.Args[0], env.scope, w.P)
				if err != nil {
					env.fail("%v", err)
				}
				so := w.sortOf(t)
				name := heapBoxName(so)
				env.heap(env.state, name, arraySort("Int", so))
				return []assignTarget{{name: name, whole: true}}
			case "arrays":
				// arrays(T): every backing array of element type T
				t, err := resolveTypeExpr(e.Args[0], env.scope, w.P)
				if err != nil {
					env.fail("%v", err)
				}
				name := heapSliceNameT(t)
				env.heap(env.state, name, arraySort("Int", arraySort("Int", w.sortOf(t))))
				return []assignTarget{{name: name, whole: true}}
			case "contents":
				v := env.tr(e.Args[0])
				return []assignTarget{{name: "Bld", sort: arraySort("Int", "String"), ref: v.T}}
			case "elems":
				v := env.tr(e.Args[0])
				stp, ok := v.Ty.Underlying().(*types.Slice)
				if !ok {
					env.fail("elems() of non-slice")
				}
				es := w.sortOf(stp.Elem())
				name := heapSliceNameT(stp.Elem())
				so := arraySort("Int", arraySort("Int", es))
				env.heap(env.state, name, so)
				return []assignTarget{{name: name, sort: so, ref: A("s_base", v.T)}}
			}
		}
	}
	env.fail("unsupported assigns item %s", types.ExprString(x))
	return nil
}

// ---------------------------------------------------------------------------------------------
// builtins

func (fr *Frame) builtin(ci ssa.CallInstruction, c *ssa.CallCommon, b *ssa.Builtin) []*Term {
	enc := fr.enc
	w := enc.w
	st := fr.cur
	switch b.Name() {
	case "len":
		v := fr.val(c.Args[0])
		switch w.sortOf(c.Args[0].Type()) {
		case "String":
			return []*Term{A("str.len", v)}
		case "Slice":
			return []*Term{A("s_len", v)}
		}
		if mt, ok := c.Args[0].Type().Underlying().(*types.Map); ok {
			ks, vs := w.sortOf(mt.Key()), w.sortOf(mt.Elem())
			f := w.ufunc("maplen_"+mangle(ks), []string{arraySort(ks, "Bool")}, "Int")
			has := st.Get("M."+ks+"."+vs+".has", arraySort("Int", arraySort(ks, "Bool")))
			r := enc.define("maplen", "Int", A(f, Select(has, v)))
			enc.assume(Le(IntLit(0), r), "len >= 0")
			return []*Term{r}
		}
		enc.unsup("len of %s", c.Args[0].Type())
	case "cap":
		return []*Term{A("s_cap", fr.val(c.Args[0]))}
	case "append":
		return []*Term{fr.appendOp(ci, c)}
	case "copy":
		return []*Term{fr.copyOp(ci, c)}
	case "print", "println":
		return nil
	}
	enc.unsup("builtin %s", b.Name())
	return nil
}

func (fr *Frame) appendOp(ci ssa.CallInstruction, c *ssa.CallCommon) *Term {
	enc := fr.enc
	w := enc.w
	st := fr.cur
	sT := c.Args[0].Type().Underlying().(*types.Slice)
	es := w.sortOf(sT.Elem())
	arrS := arraySort("Int", es)
	hname := heapSliceNameT(sT.Elem())
	s := fr.val(c.Args[0])
	h := st.Get(hname, arraySort("Int", arrS))
	// the appended elements: a spread slice, possibly built from a literal array in this function
	elems, known := fr.varargsRaw(c.Args[1])
	if bt, ok := c.Args[1].Type().Underlying().(*types.Basic); ok && bt.Info()&types.IsString != 0 {
		known = false
	}
	base, off, ln, cp := A("s_base", s), A("s_off", s), A("s_len", s), A("s_cap", s)
	if known {
		n := int64(len(elems))
		if n == 0 {
			return s
		}
		fits := enc.define("app_fits", "Bool", Le(Add(ln, IntLit(n)), cp))
		nref := fr.freshRef(st)
		ncap := enc.declare("app_cap", "Int")
		enc.assume(Le(Add(ln, IntLit(n)), ncap), "append: new capacity suffices")
		nbase := enc.define("app_base", "Int", Ite(fits, base, nref))
		arr := Select(h, base)
		for i, e := range elems {
			arr = Store(arr, Sidx(off, Add(ln, IntLit(int64(i)))), fr.val(e))
		}
		// in place when it fits, otherwise a fresh backing array holding a copy (same offset: the offset
		// is not observable)
		st.Set(hname, enc.define("app_heap", arraySort("Int", arrS), Store(h, nbase, arr)))
		return enc.define("app", "Slice", A("mk_slice", nbase, off, Add(ln, IntLit(n)), Ite(fits, cp, ncap)))
	}
	// append(s, t...) with an arbitrary slice t
	t := fr.val(c.Args[1])
	if w.sortOf(c.Args[1].Type()) != "Slice" {
		enc.unsup("append of a string")
	}
	tl := A("s_len", t)
	fits := enc.define("app_fits", "Bool", Le(Add(ln, tl), cp))
	nref := fr.freshRef(st)
	ncap := enc.declare("app_cap", "Int")
	enc.assume(Le(Add(ln, tl), ncap), "append: new capacity suffices")
	nbase := enc.define("app_base", "Int", Ite(Eq(tl, IntLit(0)), base, Ite(fits, base, nref)))
	narr := enc.declare("app_arr", arrS)
	oldArr := Select(h, base)
	tArr := Select(h, A("s_base", t))
	q := Leaf(fmt.Sprintf("q_app_%d", w.fresh()))
	qd := A("((" + q.Op + " Int))")
	pat := func(body *Term) *Term { return A("!", body, Leaf(":pattern"), A("", Select(narr, q))) }
	start := Sidx(off, ln) // absolute index of the first appended element
	enc.assume(Eq(start, Add(off, ln)), "")
	enc.assume(A("forall", qd, pat(Implies(And(Le(IntLit(0), q), Lt(q, start)), Eq(Select(narr, q), Select(oldArr, q))))), "append: old elements kept")
	enc.assume(A("forall", qd, pat(Implies(And(Le(start, q), Lt(q, Add(start, tl))),
		Eq(Select(narr, q), Select(tArr, Sidx(A("s_off", t), Sub(q, start))))))), "append: new elements copied")
	// elements beyond the new length keep their old value when appending in place
	enc.assume(A("forall", qd, pat(Implies(And(fits, Le(Add(start, tl), q)), Eq(Select(narr, q), Select(oldArr, q))))), "append: rest untouched in place")
	st.Set(hname, enc.define("app_heap", arraySort("Int", arrS), Ite(Eq(tl, IntLit(0)), h, Store(h, nbase, narr))))
	return enc.define("app", "Slice", Ite(Eq(tl, IntLit(0)), s, A("mk_slice", nbase, off, Add(ln, tl), Ite(fits, cp, ncap))))
}

// varargsRaw recovers the elements of a slice literal built from a local array (no MakeInterface peeling).
func (fr *Frame) varargsRaw(v ssa.Value) ([]ssa.Value, bool) {
	return fr.varargs(v)
}

func (fr *Frame) copyOp(ci ssa.CallInstruction, c *ssa.CallCommon) *Term {
	enc := fr.enc
	w := enc.w
	st := fr.cur
	dT := c.Args[0].Type().Underlying().(*types.Slice)
	if w.sortOf(c.Args[1].Type()) != "Slice" {
		enc.unsup("copy from string")
	}
	es := w.sortOf(dT.Elem())
	arrS := arraySort("Int", es)
	hname := heapSliceNameT(dT.Elem())
	d, s := fr.val(c.Args[0]), fr.val(c.Args[1])
	h := st.Get(hname, arraySort("Int", arrS))
	n := enc.define("copy_n", "Int", Ite(Le(A("s_len", d), A("s_len", s)), A("s_len", d), A("s_len", s)))
	narr := enc.declare("copy_arr", arrS)
	dArr, sArr := Select(h, A("s_base", d)), Select(h, A("s_base", s))
	q := Leaf(fmt.Sprintf("q_copy_%d", w.fresh()))
	qd := A("((" + q.Op + " Int))")
	dOff, sOff := A("s_off", d), A("s_off", s)
	pat := func(body *Term) *Term { return A("!", body, Leaf(":pattern"), A("", Select(narr, q))) }
	enc.assume(A("forall", qd, pat(Implies(And(Le(dOff, q), Lt(q, Add(dOff, n))), Eq(Select(narr, q), Select(sArr, Sidx(sOff, Sub(q, dOff))))))), "copy: elements copied")
	enc.assume(A("forall", qd, pat(Implies(Or(Lt(q, dOff), Le(Add(dOff, n), q)), Eq(Select(narr, q), Select(dArr, q))))), "copy: rest untouched")
	st.Set(hname, enc.define("copy_heap", arraySort("Int", arrS), Ite(Eq(n, IntLit(0)), h, Store(h, A("s_base", d), narr))))
	return n
}

// bridgeFormat: at a call passing a constant format string followed by a recoverable []any, the
// uninterpreted sprintfU(format, args) equals the verb-by-verb expansion.
func (fr *Frame) bridgeFormat(ci ssa.CallInstruction) {
	c := ci.Common()
	w := fr.enc.w
	for i := 0; i+1 < len(c.Args); i++ {
		k, ok := c.Args[i].(*ssa.Const)
		if !ok || k.Value == nil || w.sortOf(k.Type()) != "String" {
			continue
		}
		st, ok := c.Args[i+1].Type().Underlying().(*types.Slice)
		if !ok || w.sortOf(st.Elem()) != "Any" {
			continue
		}
		args, known := fr.varargs(c.Args[i+1])
		if !known {
			continue
		}
		f := w.ufunc("sprintfU", []string{"String", "Slice", arraySort("Int", "Any")}, "String")
		h := fr.cur.Get("S.any", arraySort("Int", arraySort("Int", "Any")))
		sl := fr.val(c.Args[i+1])
		fr.enc.assume(Eq(A(f, fr.val(c.Args[i]), sl, Select(h, A("s_base", sl))), fr.format(c.Args[i], args, true)), "format expansion of a constant format string")
	}
}

// behaviourOf finds the declared behaviour of a function value, if any.
func (fr *Frame) behaviourOf(v ssa.Value) string {
	w := fr.enc.w
	switch x := v.(type) {
	case *ssa.Extract:
		if call, ok := x.Tuple.(*ssa.Call); ok {
			if f := call.Call.StaticCallee(); f != nil {
				if fc := w.P.Contracts[f.String()]; fc != nil && x.Index < len(fc.Results) {
					return fc.Behaves[fc.Results[x.Index]]
				}
			}
		}
	case *ssa.Call:
		if f := x.Call.StaticCallee(); f != nil {
			if fc := w.P.Contracts[f.String()]; fc != nil && len(fc.Results) == 1 {
				return fc.Behaves[fc.Results[0]]
			}
		}
	case *ssa.Parameter:
		if fr.fc != nil {
			for i, p := range fr.fn.Params {
				if p == x && i < len(fr.fc.Params) {
					return fr.fc.Behaves[fr.fc.Params[i]]
				}
			}
		}
	case *ssa.UnOp:
		// an element of a slice parameter declared "behaves <param> <behaviour>": every element behaves so
		// (ASSUMED of the callers: listed with the assumptions)
		if ia, ok := x.X.(*ssa.IndexAddr); ok && x.Op == token.MUL {
			if p, ok := ia.X.(*ssa.Parameter); ok && fr.fc != nil {
				for i, q := range fr.fn.Params {
					if q == p && i < len(fr.fc.Params) {
						if b := fr.fc.Behaves[fr.fc.Params[i]]; b != "" {
							w.assumptions["ASSUMED of callers: every element of parameter "+fr.fc.Params[i]+" of "+fr.fc.Key+" behaves as "+b] = true
							return b
						}
					}
				}
			}
		}
	}
	return ""
}

// atCallChecks asserts the function's "atcall" clauses before a matching call.
func (fr *Frame) atCallChecks(ci ssa.CallInstruction, c *ssa.CallCommon) {
	if fr.fc == nil || len(fr.fc.AtCalls)+len(fr.fc.BeforeAssume) == 0 {
		return
	}
	name := ""
	if b, ok := c.Value.(*ssa.Builtin); ok {
		name = b.Name()
	} else {
		name, _ = fr.calleeKey(c)
	}
	if name == "" {
		return
	}
	for _, ba := range fr.fc.BeforeAssume {
		if !strings.HasSuffix(name, ba.Kind) {
			continue
		}
		env := fr.env(fr.cur)
		env.where = ba.Where()
		env.resolve = func(n string) (TV, bool) { return fr.resolveNameAt(n, nil, ci) }
		for ai, a := range c.Args {
			if _, isLV := fr.lvals[a]; isLV {
				continue
			}
			env.vars[fmt.Sprintf("ghost_arg%d", ai)] = TV{fr.val(a), a.Type()}
		}
		fr.resolveState = fr.cur
		t := fr.safeTr(env, ba)
		fr.resolveState = nil
		fr.enc.assume(Implies(fr.curPC, t), "ASSUMED before "+ba.Kind+": "+ba.Text)
		fr.enc.w.assumptions["ASSUMED in "+shortTypeName(fr.fn.String())+" before calling "+ba.Kind+": "+ba.Text] = true
	}
	for i, ac := range fr.fc.AtCalls {
		if !strings.HasSuffix(name, ac.Kind) {
			continue
		}
		ac.Matched = true
		env := fr.env(fr.cur)
		env.where = ac.Where()
		// the loop this call sits in (for name resolution of loop-carried variables)
		var li *loopInfo
		for _, l := range fr.loops {
			inside := l.body[fr.curBlock.Index]
			if !inside {
				// a block that leaves the loop (return inside the body) is still dominated by a body block
				for _, bb := range fr.fn.Blocks {
					if l.body[bb.Index] && bb != l.header && bb.Dominates(fr.curBlock) {
						inside = true
						break
					}
				}
			}
			if inside {
				if li == nil || len(l.body) < len(li.body) {
					li = l
				}
			}
		}
		env.resolve = func(n string) (TV, bool) { return fr.resolveNameAt(n, li, ci) }
		// $arg0, $arg1, ...: the arguments of the call (receiver first)
		for ai, a := range c.Args {
			if _, isLV := fr.lvals[a]; isLV {
				continue
			}
			env.vars[fmt.Sprintf("ghost_arg%d", ai)] = TV{fr.val(a), a.Type()}
		}
		fr.resolveState = fr.cur
		fr.softAtCall = true
		t := fr.safeTr(env, ac)
		fr.softAtCall = false
		fr.resolveState = nil
		fr.enc.oblige(fmt.Sprintf("atcall%d", i+1), fr.where(ci), "before calling "+ac.Kind+": "+ac.Text, ac.Tags, fr.curPC, t)
	}
}

// ciName names the results of a call instruction (a deferred call is not a value).
func ciName(ci ssa.CallInstruction) string {
	if v, ok := ci.(ssa.Value); ok {
		return v.Name()
	}
	return "deferred"
}

// interiorArgsIn handles arguments that are the address of a struct-typed field of an object (&p.opts): the memory
// model has no interior pointers, so the field's value is copied into a fresh object, the callee works on that
// object under its contract, and the result is copied back afterwards.  This is exact provided the callee cannot
// reach the field any other way, which is checked syntactically: neither the callee nor anything it calls
// (transitively, within the repository) mentions that field of that struct type.  Otherwise the call stays
// outside the subset.
func (fr *Frame) interiorArgsIn(c *ssa.CallCommon, callee *ssa.Function) func() {
	type pending struct {
		v   ssa.Value
		lv  *LVal
		tmp *LVal
	}
	var ps []pending
	for _, a := range c.Args {
		if _, has := fr.vals[a]; has {
			continue
		}
		lv, ok := fr.lvals[a]
		if !ok || lv.Kind != lvField || (lv.Idx == 0 && lv.Parent.Kind == lvRef) {
			continue
		}
		if _, isStruct := lv.Ty.Underlying().(*types.Struct); !isStruct || isBuilderType(lv.Ty) {
			continue
		}
		if callee == nil {
			fr.enc.unsup("%s: interior pointer %s passed to a dynamic call", fr.fn.Name(), a.Name())
		}
		if why := fieldReachable(callee, lv.Parent.Ty, lv.Idx, map[*ssa.Function]bool{}); why != "" {
			fr.enc.unsup("%s: interior pointer %s passed to %s, which may also reach the field itself (%s)", fr.fn.Name(), a.Name(), callee.Name(), why)
		}
		cnt := fr.cur.Get("$cnt", "Int")
		ref := fr.enc.define(fr.pfx+"tmpobj", "Int", cnt)
		fr.bumpCnt()
		tmp := &LVal{Kind: lvRef, Ref: ref, Ty: lv.Ty}
		fr.store(tmp, fr.load(lv, fr.cur), fr.cur)
		fr.vals[a] = ref
		ps = append(ps, pending{a, lv, tmp})
		fr.enc.w.assumptions["the address of a struct field passed to a contracted callee is modelled by copy-in/copy-out (the callee and its callees do not mention that field: checked)"] = true
	}
	return func() {
		for _, p := range ps {
			fr.store(p.lv, fr.load(p.tmp, fr.cur), fr.cur)
			delete(fr.vals, p.v)
		}
	}
}

// fieldReachable reports (as a non-empty reason) whether fn or a function it may call mentions field idx of struct type st.
func fieldReachable(fn *ssa.Function, st types.Type, idx int, seen map[*ssa.Function]bool) string {
	if fn == nil || seen[fn] {
		return ""
	}
	seen[fn] = true
	if fn.Blocks == nil || fn.Pkg == nil || fn.Pkg.Pkg == nil || !strings.HasPrefix(fn.Pkg.Pkg.Path(), moduleOfType(st)) {
		// code outside the repository cannot name a field of a repository struct (reflection aside: fmt verbs
		// may read it, which only feeds uninterpreted formatted text)
		if fn.Pkg != nil || fn.Blocks == nil {
			return ""
		}
	}
	same := func(t types.Type) bool {
		if pt, ok := t.Underlying().(*types.Pointer); ok {
			t = pt.Elem()
		}
		return types.Identical(t, st)
	}
	for _, b := range fn.Blocks {
		for _, ins := range b.Instrs {
			switch x := ins.(type) {
			case *ssa.FieldAddr:
				if x.Field == idx && same(x.X.Type()) {
					return fn.Name() + " takes the field's address"
				}
			case *ssa.Field:
				if x.Field == idx && same(x.X.Type()) {
					return fn.Name() + " reads the field"
				}
			case *ssa.UnOp:
				// *p of the whole struct reads every field
				if x.Op == token.MUL && types.Identical(x.Type(), st) {
					return fn.Name() + " loads the whole struct"
				}
			case *ssa.Store:
				if types.Identical(x.Val.Type(), st) {
					return fn.Name() + " stores the whole struct"
				}
			case *ssa.MakeClosure:
				if r := fieldReachable(x.Fn.(*ssa.Function), st, idx, seen); r != "" {
					return r
				}
			case ssa.CallInstruction:
				cc := x.Common()
				if cc.IsInvoke() {
					// an interface method: any implementation in the repository may run
					if pkg := cc.Method.Pkg(); pkg != nil && strings.HasPrefix(pkg.Path(), moduleOfType(st)) {
						return fn.Name() + " invokes repository interface method " + cc.Method.Name()
					}
					continue
				}
				if sc := cc.StaticCallee(); sc != nil {
					if r := fieldReachable(sc, st, idx, seen); r != "" {
						return r
					}
					continue
				}
				if _, isBuiltin := cc.Value.(*ssa.Builtin); isBuiltin {
					continue
				}
				return fn.Name() + " calls a function value"
			}
		}
	}
	return ""
}

// moduleOfType: the module path prefix of the package declaring (named) struct type st.
func moduleOfType(st types.Type) string {
	n, ok := st.(*types.Named)
	if !ok || n.Obj().Pkg() == nil {
		return "\x00"
	}
	p := n.Obj().Pkg().Path()
	if i := strings.Index(p, "/pkg/"); i > 0 {
		return p[:i]
	}
	return p
}

func (fr *Frame) safeTrInt(env *Env, c *Clause) (t *Term) {
	defer func() {
		if r := recover(); r != nil {
			if se, ok := r.(specErr); ok {
				panic(unsupportedErr{"contract error: " + se.msg})
			}
			panic(r)
		}
	}()
	return env.tr(c.Expr).T
}

// reachesFn: can a call of from lead (through static calls and function literals) to a call of target?
func reachesFn(from, target *ssa.Function, seen map[*ssa.Function]bool) bool {
	if from == nil || seen[from] {
		return false
	}
	seen[from] = true
	fs := []*ssa.Function{from}
	fs = append(fs, from.AnonFuncs...)
	for _, g := range fs {
		for _, b := range g.Blocks {
			for _, ins := range b.Instrs {
				ci, ok := ins.(ssa.CallInstruction)
				if !ok {
					continue
				}
				sc := ci.Common().StaticCallee()
				if sc == nil {
					continue
				}
				if sc == target || reachesFn(sc, target, seen) {
					return true
				}
			}
		}
	}
	return false
}
