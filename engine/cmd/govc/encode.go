package main

import (
	"fmt"
	"go/ast"
	"go/types"
	"sort"
	"strings"

	"golang.org/x/tools/go/ssa"
)

// Item is one element of a function's assumption stream.
type Item struct {
	Scope int // >0: emitted inside a scoped region (the body of an expanded iterator callback)
	Decl  bool
	Name  string
	Sort  string
	T     *Term // assumption (when !Decl)
	Note  string
}

type Obligation struct {
	Name    string
	Func    string
	Kind    string
	Tags    []string
	Where   string
	Clause  string
	NItems  int
	Goal    *Term
	Hyps    []*Term // extra hypotheses for this obligation only
	enc     *Enc
	MustFail bool // vacuity canary: expected NOT to be provable

	// results
	Result string // unsat / sat / unknown / timeout / error
	Solver string
	Ms     int64
	Model  string
	Script string
	Carved   bool            // a known-finding carve-out is in force
	Findings []*KnownFinding // findings attached to this obligation
	HypOf    []*KnownFinding // HypOf[i] is the finding that contributed Hyps[i]
	DropRes  []string        // DropRes[i]: result when Hyps[i] is left out (is finding i still needed?)
	Splits   []*Term         // case split applied when the unsplit query is not decided quickly
	NSplit   int             // number of split cases actually solved
	ClosedScopes map[int]bool // scoped regions already finished when the obligation was created (their assumptions are irrelevant)
	UnfoldDepth int          // reduced unfolding depth (when the script got too large), -1: default
}

// Enc accumulates the verification conditions of one function under contract.
type Enc struct {
	w     *World
	fn    *ssa.Function
	fc    *FuncContract
	name  string
	items []Item
	obls  []*Obligation
	heap0 map[string]*Term
	nobl  map[string]int
	unsupported []string
	epochs int
	curScope int
	nScopes  int
	closed   map[int]bool
	inputs []inputVar // model-relevant inputs (for replay / reporting)
	splits []*Term    // case-split conditions (entry state) for heavy obligations
}

type inputVar struct {
	Name string
	T    *Term
	Sort string
	Ty   types.Type
}

type unsupportedErr struct{ msg string }

func (enc *Enc) unsup(format string, a ...any) {
	panic(unsupportedErr{fmt.Sprintf(format, a...)})
}

func (enc *Enc) declare(prefix, sortName string) *Term {
	n := enc.w.fresh()
	name := fmt.Sprintf("%s_%d", mangle(prefix), n)
	enc.items = append(enc.items, Item{Decl: true, Name: name, Sort: sortName, Scope: enc.curScope})
	return Leaf(name)
}

func (enc *Enc) assume(t *Term, note string) {
	if isTrue(t) {
		return
	}
	// split conjunctions (also under an implication) so that quantifier-free conjuncts stay usable on
	// their own
	if t.Op == "and" {
		for _, a := range t.Args {
			enc.assume(a, note)
		}
		return
	}
	if t.Op == "=>" && len(t.Args) == 2 && t.Args[1].Op == "and" {
		for _, a := range t.Args[1].Args {
			enc.assume(Implies(t.Args[0], a), note)
		}
		return
	}
	enc.items = append(enc.items, Item{T: t, Note: note, Scope: enc.curScope})
}

// define introduces a named constant equal to t (keeps terms small).
func (enc *Enc) define(prefix, sortName string, t *Term) *Term {
	if len(t.Args) == 0 {
		return t
	}
	c := enc.declare(prefix, sortName)
	enc.assume(Eq(c, t), "")
	return c
}

func (enc *Enc) oblige(kind, where, clause string, tags []string, pc, goal *Term) *Obligation {
	enc.nobl[kind]++
	o := &Obligation{
		Name:   fmt.Sprintf("%s:%s#%d", enc.name, kind, enc.nobl[kind]),
		Func:   enc.name, Kind: kind, Tags: tags, Where: where, Clause: clause,
		NItems: len(enc.items), Goal: Implies(pc, goal), enc: enc, UnfoldDepth: -1,
	}
	if strings.HasPrefix(kind, "ensures") || strings.HasPrefix(kind, "loop") {
		o.Splits = enc.splits
	}
	if len(enc.closed) > 0 {
		o.ClosedScopes = make(map[int]bool, len(enc.closed))
		for k := range enc.closed {
			o.ClosedScopes[k] = true
		}
	}
	enc.obls = append(enc.obls, o)
	return o
}

// ---------------------------------------------------------------------------------------------
// State: versions of heap variables.

type State struct {
	enc   *Enc
	m     map[string]*Term
	epoch *epoch // nil: function entry versions
}

type epoch struct {
	id int
	m  map[string]*Term
}

func (enc *Enc) newState() *State { return &State{enc: enc, m: map[string]*Term{}} }

func (s *State) clone() *State {
	c := &State{enc: s.enc, m: make(map[string]*Term, len(s.m)), epoch: s.epoch}
	for k, v := range s.m {
		c.m[k] = v
	}
	return c
}

func (s *State) Get(name, sortName string) *Term {
	if old, ok := s.enc.w.heapSorts[name]; ok && old != sortName {
		panic(fmt.Sprintf("heap variable %s used with sorts %s and %s", name, old, sortName))
	}
	s.enc.w.heapSorts[name] = sortName
	if t, ok := s.m[name]; ok {
		return t
	}
	if s.epoch != nil {
		if t, ok := s.epoch.m[name]; ok {
			return t
		}
		t := s.enc.declare(fmt.Sprintf("e%d_%s", s.epoch.id, name), sortName)
		s.epoch.m[name] = t
		s.enc.postHavocFacts(name, t)
		return t
	}
	if t, ok := s.enc.heap0[name]; ok {
		return t
	}
	t := s.enc.declare("h0_"+name, sortName)
	s.enc.heap0[name] = t
	s.enc.postHavocFacts(name, t)
	return t
}

// postHavocFacts: facts that hold of every version of certain heap variables.
func (enc *Enc) postHavocFacts(name string, t *Term) {
	if name == "$cnt" {
		enc.assume(Le(IntLit(1), t), "allocation counter positive")
	}
}

func (s *State) Set(name string, t *Term) {
	if len(t.Args) > 0 {
		if so, ok := s.enc.w.heapSorts[name]; ok {
			t = s.enc.define("h_"+name, so, t)
		}
	}
	s.m[name] = t
}

func (s *State) havocAll() {
	s.enc.epochs++
	cnt := s.Get("$cnt", "Int")
	s.m = map[string]*Term{}
	s.epoch = &epoch{id: s.enc.epochs, m: map[string]*Term{}}
	ncnt := s.Get("$cnt", "Int")
	s.enc.assume(Le(cnt, ncnt), "allocation counter monotone")
}

// mergeStates joins predecessor states under their edge conditions.
func (enc *Enc) mergeStates(states []*State, conds []*Term) *State {
	if len(states) == 1 {
		return states[0].clone()
	}
	sameEpoch := true
	for _, s := range states[1:] {
		if s.epoch != states[0].epoch {
			sameEpoch = false
		}
	}
	out := &State{enc: enc, m: map[string]*Term{}, epoch: states[0].epoch}
	keys := map[string]bool{}
	for _, s := range states {
		for k := range s.m {
			keys[k] = true
		}
	}
	if !sameEpoch {
		for k := range enc.w.heapSorts {
			keys[k] = true
		}
		for _, s := range states {
			if s.epoch != nil {
				for k := range s.epoch.m {
					keys[k] = true
				}
			}
		}
		for k := range enc.heap0 {
			keys[k] = true
		}
		enc.epochs++
		out.epoch = &epoch{id: enc.epochs, m: map[string]*Term{}}
	}
	for _, k := range sortedKeys(keys) {
		so := enc.w.heapSorts[k]
		first := states[0].Get(k, so)
		same := true
		for _, s := range states[1:] {
			if s.Get(k, so) != first {
				same = false
			}
		}
		if same {
			if _, ok := states[0].m[k]; ok || !sameEpoch {
				out.m[k] = first
			}
			continue
		}
		t := states[len(states)-1].Get(k, so)
		for i := len(states) - 2; i >= 0; i-- {
			t = Ite(conds[i], states[i].Get(k, so), t)
		}
		out.m[k] = enc.define("m_"+k, so, t)
	}
	return out
}

// ---------------------------------------------------------------------------------------------
// LVal: symbolic addresses.

type LVal struct {
	Kind   int // 0 ref, 1 field, 2 elem, 3 global
	Ref    *Term
	Ty     types.Type // pointee type
	Parent *LVal
	Idx    int
	Base   *Term // elem: backing array ref
	Index  *Term // elem: absolute index into the backing array
	Global string
}

const (
	lvRef = iota
	lvField
	lvElem
	lvGlobal
)

// ---------------------------------------------------------------------------------------------
// Frame: one activation (top-level function or inlined closure).

type deferredCall struct {
	ins *ssa.Defer
	pc  *Term
}

type Frame struct {
	softAtCall bool
	deferred []deferredCall
	enc      *Enc
	fn       *ssa.Function
	fc       *FuncContract
	vals     map[ssa.Value]*Term
	tuples   map[ssa.Value][]*Term
	lvals    map[ssa.Value]*LVal
	closures map[ssa.Value]*ssa.MakeClosure
	bindings map[*ssa.FreeVar]*Term
	bindLV   map[*ssa.FreeVar]*LVal
	bindClos map[*ssa.FreeVar]*closureRef
	pc       map[int]*Term
	out      map[int]*State
	edge     map[[2]int]*Term
	loops    map[int]*loopInfo // by header block index
	old      *State
	exits    []exitPoint
	depth    int
	pfx      string
	debug    map[string][]ssa.Value
	cur      *State
	curPC    *Term
	curBlock *ssa.BasicBlock
	paramTV  map[string]TV
	callOrd  int
	parent   *Frame
	paramClos map[*ssa.Parameter]*closureRef
	fmtSlice  ssa.Value
	inResolve bool
	resolveState *State
	defFrame     *Frame           // inlined closure: the frame that created it
	defClosure   *ssa.MakeClosure // inlined closure: its MakeClosure
	itK          *Term            // index of the iterator expansion in progress
}

type closureRef struct {
	mc *ssa.MakeClosure
	fr *Frame
}

type exitPoint struct {
	pc      *Term
	results []*Term
	state   *State
}

type loopInfo struct {
	header  *ssa.BasicBlock
	body    map[int]bool
	ordinal int
	backs   []*ssa.BasicBlock
	entryState *State
	phiEntry map[*ssa.Phi]*Term
	ghostK, ghostKHead *Term // ghost iteration counter for loops without a range index
}

func (enc *Enc) newFrame(fn *ssa.Function, fc *FuncContract, parent *Frame) *Frame {
	fr := &Frame{enc: enc, fn: fn, fc: fc, vals: map[ssa.Value]*Term{}, tuples: map[ssa.Value][]*Term{},
		lvals: map[ssa.Value]*LVal{}, closures: map[ssa.Value]*ssa.MakeClosure{}, bindings: map[*ssa.FreeVar]*Term{},
		bindLV: map[*ssa.FreeVar]*LVal{}, bindClos: map[*ssa.FreeVar]*closureRef{},
		pc: map[int]*Term{}, out: map[int]*State{}, edge: map[[2]int]*Term{}, loops: map[int]*loopInfo{},
		debug: map[string][]ssa.Value{}, paramTV: map[string]TV{}, parent: parent}
	if parent != nil {
		fr.depth = parent.depth + 1
	}
	fr.findLoops()
	for _, b := range fn.Blocks {
		for _, ins := range b.Instrs {
			if x, ok := ins.(*ssa.DebugRef); ok {
				if id, ok := x.Expr.(*ast.Ident); ok && !x.IsAddr {
					fr.debug[id.Name] = append(fr.debug[id.Name], x.X)
				}
			}
		}
	}
	return fr
}

func (fr *Frame) findLoops() {
	fn := fr.fn
	var headers []*ssa.BasicBlock
	for _, b := range fn.Blocks {
		for _, s := range b.Succs {
			if s.Dominates(b) {
				li := fr.loops[s.Index]
				if li == nil {
					li = &loopInfo{header: s, body: map[int]bool{s.Index: true}}
					fr.loops[s.Index] = li
					headers = append(headers, s)
				}
				li.backs = append(li.backs, b)
				// natural loop: blocks reaching b without passing s
				stack := []*ssa.BasicBlock{b}
				for len(stack) > 0 {
					x := stack[len(stack)-1]
					stack = stack[:len(stack)-1]
					if li.body[x.Index] {
						continue
					}
					li.body[x.Index] = true
					for _, p := range x.Preds {
						stack = append(stack, p)
					}
				}
			}
		}
	}
	sort.Slice(headers, func(i, j int) bool { return headers[i].Index < headers[j].Index })
	for i, h := range headers {
		fr.loops[h.Index].ordinal = i + 1
	}
}

func isBackEdge(from, to *ssa.BasicBlock) bool { return to.Dominates(from) }

// order returns the blocks in a topological order of the forward-edge graph.
func (fr *Frame) order() []*ssa.BasicBlock {
	fn := fr.fn
	indeg := make([]int, len(fn.Blocks))
	for _, b := range fn.Blocks {
		for _, s := range b.Succs {
			if !isBackEdge(b, s) {
				indeg[s.Index]++
			}
		}
	}
	var out []*ssa.BasicBlock
	var ready []*ssa.BasicBlock
	ready = append(ready, fn.Blocks[0])
	seen := map[int]bool{}
	for len(ready) > 0 {
		// pick the lowest index for determinism
		sort.Slice(ready, func(i, j int) bool { return ready[i].Index < ready[j].Index })
		b := ready[0]
		ready = ready[1:]
		if seen[b.Index] {
			continue
		}
		seen[b.Index] = true
		out = append(out, b)
		for _, s := range b.Succs {
			if isBackEdge(b, s) {
				continue
			}
			indeg[s.Index]--
			if indeg[s.Index] == 0 {
				ready = append(ready, s)
			}
		}
	}
	return out
}

// run symbolically executes the function body from the given state.
func (fr *Frame) run(entryPC *Term, entry *State) {
	fr.old = entry.clone()
	for _, b := range fr.order() {
		fr.block(b, entryPC, entry)
	}
}

func (fr *Frame) block(b *ssa.BasicBlock, entryPC *Term, entry *State) {
	enc := fr.enc
	fr.curBlock = b
	li := fr.loops[b.Index]
	var pc *Term
	var st *State
	var fwdPreds []*ssa.BasicBlock
	var conds []*Term
	if b.Index == 0 {
		pc, st = entryPC, entry.clone()
	} else {
		var states []*State
		for _, p := range b.Preds {
			if isBackEdge(p, b) {
				continue
			}
			c, ok := fr.edge[[2]int{p.Index, b.Index}]
			if !ok || isFalse(c) {
				continue // unreachable predecessor
			}
			fwdPreds = append(fwdPreds, p)
			conds = append(conds, c)
			states = append(states, fr.out[p.Index])
		}
		if len(fwdPreds) == 0 {
			// unreachable block
			fr.pc[b.Index] = tFalse
			fr.out[b.Index] = enc.newState()
			pc, st = tFalse, enc.newState()
			if li == nil {
				// still define values so later uses do not crash
			}
		} else {
			pc = enc.define(fmt.Sprintf("pc_%s%d", fr.pfx, b.Index), "Bool", Or(conds...))
			st = enc.mergeStates(states, conds)
		}
	}
	fr.pc[b.Index] = pc
	fr.cur, fr.curPC = st, pc

	// phis
	phiVal := func(phi *ssa.Phi, preds []*ssa.BasicBlock, cs []*Term) *Term {
		so := enc.w.sortOf(phi.Type())
		var t *Term
		for i := len(preds) - 1; i >= 0; i-- {
			// index of pred in b.Preds
			var v *Term
			for j, p := range b.Preds {
				if p == preds[i] {
					v = fr.val(phi.Edges[j])
				}
			}
			if t == nil {
				t = v
			} else {
				t = Ite(cs[i], v, t)
			}
		}
		if t == nil {
			t = enc.w.zero(so)
		}
		return t
	}
	if li == nil {
		for _, ins := range b.Instrs {
			phi, ok := ins.(*ssa.Phi)
			if !ok {
				break
			}
			so := enc.w.sortOf(phi.Type())
			fr.vals[phi] = enc.define(fr.pfx+phi.Name(), so, phiVal(phi, fwdPreds, conds))
		}
	} else {
		fr.loopHeader(li, b, fwdPreds, conds, phiVal)
	}

	for _, ins := range b.Instrs {
		if _, ok := ins.(*ssa.Phi); ok {
			continue
		}
		fr.instr(ins)
	}
	fr.out[b.Index] = fr.cur
	// back edges leaving this block
	for _, s := range b.Succs {
		if isBackEdge(b, s) {
			fr.backEdge(fr.loops[s.Index], b)
		}
	}
}

func (fr *Frame) where(ins ssa.Instruction) string {
	p := fr.fn.Prog.Fset.Position(ins.Pos())
	if !p.IsValid() {
		// walk back for a position
		return fr.fn.Name()
	}
	return fmt.Sprintf("%s:%d", shortFile(p.Filename), p.Line)
}

// ---------------------------------------------------------------------------------------------
// values

func (fr *Frame) val(v ssa.Value) *Term {
	if t, ok := fr.vals[v]; ok {
		return t
	}
	enc := fr.enc
	switch x := v.(type) {
	case *ssa.Const:
		return fr.constTerm(x)
	case *ssa.FreeVar:
		if t, ok := fr.bindings[x]; ok {
			return t
		}
		if _, ok := fr.bindLV[x]; ok {
			enc.unsup("%s: captured interior pointer %s used as a value", fr.fn.Name(), x.Name())
		}
		enc.unsup("%s: unbound free variable %s", fr.fn.Name(), x.Name())
	case *ssa.Function:
		return Leaf(enc.w.uconst("fnid_"+mangle(shortTypeName(x.String())), "Int"))
	case *ssa.Global:
		enc.unsup("%s: address of global %s used as a value", fr.fn.Name(), x.Name())
	}
	if lv, ok := fr.lvals[v]; ok {
		// the address of the first field of an object is the address of the object
		if lv.Kind == lvField && lv.Idx == 0 && lv.Parent.Kind == lvRef {
			return lv.Parent.Ref
		}
		enc.unsup("%s: interior pointer %s used as a value", fr.fn.Name(), v.Name())
	}
	if _, ok := fr.tuples[v]; ok {
		enc.unsup("%s: tuple %s used as a value", fr.fn.Name(), v.Name())
	}
	enc.unsup("%s: value %s (%T) has no term", fr.fn.Name(), v.Name(), v)
	return nil
}

func (fr *Frame) constTerm(c *ssa.Const) *Term {
	w := fr.enc.w
	so := w.sortOf(c.Type())
	if c.Value == nil {
		return w.zero(so)
	}
	switch so {
	case "Int":
		return IntLit(c.Int64())
	case "Bool":
		if c.Value.String() == "true" {
			return tTrue
		}
		return tFalse
	case "String":
		return StrLit(constantString(c))
	case "Real":
		return Leaf(fmt.Sprintf("%f", c.Float64()))
	}
	fr.enc.unsup("constant of sort %s", so)
	return nil
}

// lval returns the symbolic address denoted by pointer-typed value v.
func (fr *Frame) lval(v ssa.Value) *LVal {
	if lv, ok := fr.lvals[v]; ok {
		return lv
	}
	if fv, ok := v.(*ssa.FreeVar); ok {
		if lv, ok := fr.bindLV[fv]; ok {
			return lv
		}
	}
	if g, ok := v.(*ssa.Global); ok {
		return &LVal{Kind: lvGlobal, Global: "G." + g.Pkg.Pkg.Path() + "." + g.Name(), Ty: g.Type().(*types.Pointer).Elem()}
	}
	pt, ok := v.Type().Underlying().(*types.Pointer)
	if !ok {
		fr.enc.unsup("lval of non-pointer %s", v.Name())
	}
	return &LVal{Kind: lvRef, Ref: fr.val(v), Ty: pt.Elem()}
}

func (fr *Frame) env(st *State) *Env {
	return &Env{w: fr.enc.w, vars: map[string]TV{}, state: st, old: fr.old, scope: fr.scopeOf()}
}

func (fr *Frame) scopeOf() *Scope {
	if fr.fc != nil {
		return fr.fc.Scope
	}
	for p := fr.parent; p != nil; p = p.parent {
		if p.fc != nil {
			return p.fc.Scope
		}
	}
	return &Scope{Aliases: map[string]*types.Package{}}
}

// load reads the value at an address.
func (fr *Frame) load(lv *LVal, st *State) *Term {
	e := fr.env(st)
	switch lv.Kind {
	case lvRef:
		return e.loadPtr(st, lv.Ref, lv.Ty)
	case lvGlobal:
		return e.heap(st, lv.Global, fr.enc.w.sortOf(lv.Ty))
	case lvField:
		p := lv.Parent
		if p.Kind == lvRef && !isBuilderType(p.Ty) {
			s := fr.enc.w.structSort(p.Ty)
			return e.loadField(st, s, lv.Idx, p.Ref)
		}
		s := fr.enc.w.structSort(p.Ty)
		return A(s.acc(lv.Idx), fr.load(p, st))
	case lvElem:
		es := fr.enc.w.sortOf(lv.Ty)
		arr := Select(e.heap(st, heapSliceNameT(lv.Ty), arraySort("Int", arraySort("Int", es))), lv.Base)
		return Select(arr, lv.Index)
	}
	panic("bad lval")
}

// store writes v at an address.
func (fr *Frame) store(lv *LVal, v *Term, st *State) {
	e := fr.env(st)
	w := fr.enc.w
	switch lv.Kind {
	case lvRef:
		if isBuilderType(lv.Ty) {
			// whole-value store of a builder (zero value initialisation)
			h := e.heap(st, "Bld", arraySort("Int", "String"))
			st.Set("Bld", Store(h, lv.Ref, StrLit("")))
			return
		}
		if _, ok := lv.Ty.Underlying().(*types.Struct); ok {
			s := w.structSort(lv.Ty)
			for i := range s.Fields {
				name := heapFieldName(s, i)
				h := e.heap(st, name, arraySort("Int", s.Fields[i].Sort))
				st.Set(name, Store(h, lv.Ref, A(s.acc(i), v)))
			}
			return
		}
		so := w.sortOf(lv.Ty)
		name := heapBoxName(so)
		h := e.heap(st, name, arraySort("Int", so))
		st.Set(name, Store(h, lv.Ref, v))
	case lvGlobal:
		e.heap(st, lv.Global, w.sortOf(lv.Ty))
		st.Set(lv.Global, v)
	case lvField:
		p := lv.Parent
		s := w.structSort(p.Ty)
		if p.Kind == lvRef {
			name := heapFieldName(s, lv.Idx)
			h := e.heap(st, name, arraySort("Int", s.Fields[lv.Idx].Sort))
			st.Set(name, Store(h, p.Ref, v))
			return
		}
		old := fr.load(p, st)
		args := make([]*Term, len(s.Fields))
		for i := range s.Fields {
			if i == lv.Idx {
				args[i] = v
			} else {
				args[i] = A(s.acc(i), old)
			}
		}
		fr.store(p, A(s.ctor(), args...), st)
	case lvElem:
		es := w.sortOf(lv.Ty)
		name := heapSliceNameT(lv.Ty)
		h := e.heap(st, name, arraySort("Int", arraySort("Int", es)))
		st.Set(name, Store(h, lv.Base, Store(Select(h, lv.Base), lv.Index, v)))
	}
}

// assumeWF adds the well-formedness facts of a value obtained from outside.
func (fr *Frame) assumeWF(t *Term, ty types.Type, st *State, depth int) {
	enc := fr.enc
	if tis := enc.w.P.TypeInvs[types.TypeString(ty, nil)]; len(tis) > 0 {
		for _, ti := range tis {
			if len(ti.Vars) == 1 {
				fr.assumeTypeInv(ti, []*Term{t}, []types.Type{ty}, st)
			}
		}
	}
	switch u := ty.Underlying().(type) {
	case *types.Pointer, *types.Map, *types.Chan:
		cnt := st.Get("$cnt", "Int")
		enc.assume(And(Le(IntLit(0), t), Lt(t, cnt)), "reference is allocated")
	case *types.Slice:
		cnt := st.Get("$cnt", "Int")
		b, o, l, c := A("s_base", t), A("s_off", t), A("s_len", t), A("s_cap", t)
		enc.assume(And(Le(IntLit(0), b), Lt(b, cnt), Le(IntLit(0), o), Le(IntLit(0), l), Le(l, c),
			Implies(Eq(b, IntLit(0)), And(Eq(l, IntLit(0)), Eq(c, IntLit(0)), Eq(o, IntLit(0))))), "slice well-formed")
	case *types.Struct:
		if depth <= 0 {
			return
		}
		s := enc.w.structSort(ty)
		for i, f := range s.Fields {
			switch f.Type.Underlying().(type) {
			case *types.Pointer, *types.Slice, *types.Map, *types.Struct:
				fr.assumeWF(A(s.acc(i), t), f.Type, st, depth-1)
			}
		}
		_ = u
	case *types.Basic:
		if u.Info()&types.IsUnsigned != 0 {
			enc.assume(Le(IntLit(0), t), "unsigned")
		}
	}
}

func constantString(c *ssa.Const) string {
	s := c.Value.ExactString()
	// ExactString gives a quoted Go string
	if us, err := unquoteGo(s); err == nil {
		return us
	}
	return strings.Trim(s, `"`)
}

// assumeTypeInv instantiates an assumed library type invariant.
func (fr *Frame) assumeTypeInv(ti *TypeInv, vals []*Term, tys []types.Type, st *State) {
	enc := fr.enc
	env := &Env{w: enc.w, vars: map[string]TV{}, state: st, scope: ti.Scope, where: "typeinv " + ti.Key}
	for i, v := range ti.Vars {
		env.vars[v] = TV{vals[i], tys[i]}
	}
	defer func() {
		if r := recover(); r != nil {
			if se, ok := r.(specErr); ok {
				panic(unsupportedErr{"contract error: " + se.msg})
			}
			panic(r)
		}
	}()
	enc.assume(env.trBool(ti.Expr), "library type invariant "+ti.Key)
	enc.w.assumptions["library type invariant "+ti.Key+": "+ti.Text] = true
}
