package main

import (
	"fmt"
	"go/types"
	"strings"

	"golang.org/x/tools/go/ssa"
)

// PureFn is a library (or /repo) function whose results are uninterpreted functions of its arguments.
type PureFn struct {
	Key     string
	Names   []string
	Params  []types.Type
	Results []types.Type
}

// lookupSig resolves a canonical function key to its parameter (receiver first) and result types.
func (P *Program) lookupSig(key string) ([]types.Type, []types.Type, error) {
	if f, ok := P.Funcs[key]; ok && f.Signature != nil {
		var ps, rs []types.Type
		sig := f.Signature
		if sig.Recv() != nil {
			ps = append(ps, sig.Recv().Type())
		}
		for i := 0; i < sig.Params().Len(); i++ {
			ps = append(ps, sig.Params().At(i).Type())
		}
		for i := 0; i < sig.Results().Len(); i++ {
			rs = append(rs, sig.Results().At(i).Type())
		}
		return ps, rs, nil
	}
	var recvT types.Type
	var fn *types.Func
	if strings.HasPrefix(key, "(") {
		i := strings.Index(key, ").")
		if i < 0 {
			return nil, nil, fmt.Errorf("bad key %s", key)
		}
		recv, meth := key[1:i], key[i+2:]
		ptr := strings.HasPrefix(recv, "*")
		recv = strings.TrimPrefix(recv, "*")
		var named types.Type
		if recv == "error" {
			named = types.Universe.Lookup("error").Type()
		} else {
			j := strings.LastIndex(recv, ".")
			if j < 0 {
				return nil, nil, fmt.Errorf("bad receiver in %s", key)
			}
			pkg := P.AllTypes[recv[:j]]
			if pkg == nil {
				return nil, nil, fmt.Errorf("package %s not loaded (%s)", recv[:j], key)
			}
			o := pkg.Scope().Lookup(recv[j+1:])
			if o == nil {
				return nil, nil, fmt.Errorf("type %s not found", recv)
			}
			named = o.Type()
		}
		recvT = named
		if ptr {
			recvT = types.NewPointer(named)
		}
		obj, _, _ := types.LookupFieldOrMethod(recvT, true, nil, meth)
		if obj == nil {
			// unexported methods need the package
			if n, ok := named.(*types.Named); ok {
				obj, _, _ = types.LookupFieldOrMethod(recvT, true, n.Obj().Pkg(), meth)
			}
		}
		f, ok := obj.(*types.Func)
		if !ok {
			return nil, nil, fmt.Errorf("method %s not found", key)
		}
		fn = f
	} else {
		j := strings.LastIndex(key, ".")
		if j < 0 {
			return nil, nil, fmt.Errorf("bad key %s", key)
		}
		pkg := P.AllTypes[key[:j]]
		if pkg == nil {
			return nil, nil, fmt.Errorf("package %s not loaded (%s)", key[:j], key)
		}
		f, ok := pkg.Scope().Lookup(key[j+1:]).(*types.Func)
		if !ok {
			return nil, nil, fmt.Errorf("function %s not found", key)
		}
		fn = f
	}
	sig := fn.Type().(*types.Signature)
	var ps, rs []types.Type
	if recvT != nil {
		ps = append(ps, recvT)
	}
	for i := 0; i < sig.Params().Len(); i++ {
		ps = append(ps, sig.Params().At(i).Type())
	}
	for i := 0; i < sig.Results().Len(); i++ {
		rs = append(rs, sig.Results().At(i).Type())
	}
	return ps, rs, nil
}

func (w *World) initPure() error {
	w.pureAliases = map[string]*PureFn{}
	w.pureByKey = map[string]*PureFn{}
	for _, key := range sortedKeys(w.P.Contracts) {
		fc := w.P.Contracts[key]
		if !fc.Pure {
			continue
		}
		ps, rs, err := w.P.lookupSig(key)
		if err != nil {
			return fmt.Errorf("%s:%d: %v", fc.File, fc.Line, err)
		}
		pf := &PureFn{Key: key, Names: fc.PureNames, Params: ps, Results: rs}
		for i := len(pf.Names); i < len(rs); i++ {
			base := "lib_" + mangle(shortTypeName(key))
			if i > 0 {
				base += fmt.Sprintf("_%d", i)
			}
			pf.Names = append(pf.Names, base)
		}
		w.pureByKey[key] = pf
		for _, n := range fc.PureNames {
			if _, dup := w.pureAliases[n]; dup {
				return fmt.Errorf("%s:%d: duplicate pure alias %s", fc.File, fc.Line, n)
			}
			w.pureAliases[n] = pf
		}
	}
	return nil
}

func (w *World) applyPure(e *Env, pf *PureFn, args []TV) TV {
	// which result does this alias denote?
	return TV{w.applyPureN(e, pf, args, 0), pf.Results[0]}
}

func (w *World) applyPureAlias(e *Env, name string, pf *PureFn, args []TV) TV {
	for i, n := range pf.Names {
		if n == name {
			return TV{w.applyPureN(e, pf, args, i), pf.Results[i]}
		}
	}
	return w.applyPure(e, pf, args)
}

func (w *World) applyPureN(e *Env, pf *PureFn, args []TV, i int) *Term {
	if len(args) != len(pf.Params) {
		e.fail("pure function %s: %d arguments, want %d", pf.Key, len(args), len(pf.Params))
	}
	sorts := make([]string, len(args))
	ts := make([]*Term, len(args))
	for j, a := range args {
		sorts[j] = w.sortOf(pf.Params[j])
		ts[j] = e.coerce(a, pf.Params[j])
	}
	name := w.ufunc(pf.Names[i], sorts, w.sortOf(pf.Results[i]))
	if len(ts) == 0 {
		return Leaf(name)
	}
	return A(name, ts...)
}

// inline executes a closure body in place.
func (fr *Frame) inline(fn *ssa.Function, mc *ssa.MakeClosure, defFrame *Frame, args []ssa.Value, ci ssa.CallInstruction) []*Term {
	terms := make([]*Term, len(args))
	clos := make([]*closureRef, len(args))
	for i, a := range args {
		terms[i] = fr.val(a)
		clos[i] = fr.closureOf(a)
	}
	return fr.inlineT(fn, mc, defFrame, terms, clos)
}

// inlineT executes a closure body in place with the given argument terms.
func (fr *Frame) inlineT(fn *ssa.Function, mc *ssa.MakeClosure, defFrame *Frame, args []*Term, argClos []*closureRef) []*Term {
	enc := fr.enc
	if fr.depth > 6 {
		enc.unsup("inlining too deep at %s", fn.Name())
	}
	fc := enc.w.P.Contracts[fn.String()]
	if fc != nil {
		fc.Used = true
	}
	sub := enc.newFrame(fn, fc, fr)
	sub.pfx = fmt.Sprintf("%si%d_", fr.pfx, enc.w.fresh())
	for i, p := range fn.Params {
		if argClos != nil && argClos[i] != nil {
			if sub.paramClos == nil {
				sub.paramClos = map[*ssa.Parameter]*closureRef{}
			}
			sub.paramClos[p] = argClos[i]
		}
		sub.vals[p] = args[i]
	}
	sub.defFrame, sub.defClosure = defFrame, mc
	if mc != nil {
		for i, fv := range fn.FreeVars {
			b := mc.Bindings[i]
			if lv, ok := defFrame.lvals[b]; ok {
				sub.bindLV[fv] = lv
			} else if cr := defFrame.closureOf(b); cr != nil {
				sub.bindClos[fv] = cr
				sub.bindings[fv] = defFrame.val(b)
			} else {
				sub.bindings[fv] = defFrame.val(b)
			}
		}
	}
	if fc != nil {
		for i, n := range fc.Params {
			if i < len(fn.Params) {
				sub.paramTV[n] = TV{sub.vals[fn.Params[i]], fn.Params[i].Type()}
			}
		}
	}
	sub.run(fr.curPC, fr.cur)
	// merge exits
	if len(sub.exits) == 0 {
		fr.curPC = tFalse
		var res []*Term
		for i := 0; i < fn.Signature.Results().Len(); i++ {
			res = append(res, enc.w.zero(enc.w.sortOf(fn.Signature.Results().At(i).Type())))
		}
		return res
	}
	pcs := make([]*Term, len(sub.exits))
	states := make([]*State, len(sub.exits))
	for i, ex := range sub.exits {
		pcs[i], states[i] = ex.pc, ex.state
	}
	fr.cur = enc.mergeStates(states, pcs)
	fr.curPC = enc.define("pc_after_"+sub.pfx, "Bool", Or(pcs...))
	nres := fn.Signature.Results().Len()
	res := make([]*Term, nres)
	for r := 0; r < nres; r++ {
		t := sub.exits[len(sub.exits)-1].results[r]
		for i := len(sub.exits) - 2; i >= 0; i-- {
			t = Ite(pcs[i], sub.exits[i].results[r], t)
		}
		res[r] = enc.define(sub.pfx+"res", enc.w.sortOf(fn.Signature.Results().At(r).Type()), t)
	}
	return res
}

func (sub *Frame) bindParam(p *ssa.Parameter, a ssa.Value, caller *Frame) {
	if cr := caller.closureOf(a); cr != nil {
		if sub.paramClos == nil {
			sub.paramClos = map[*ssa.Parameter]*closureRef{}
		}
		sub.paramClos[p] = cr
	}
	sub.vals[p] = caller.val(a)
}
