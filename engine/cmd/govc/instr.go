package main

import (
	"fmt"
	"go/token"
	"go/types"
	"strconv"

	"golang.org/x/tools/go/ssa"
)

func unquoteGo(s string) (string, error) { return strconv.Unquote(s) }

func (fr *Frame) instr(ins ssa.Instruction) {
	enc := fr.enc
	w := enc.w
	st := fr.cur
	pc := fr.curPC
	switch x := ins.(type) {
	case *ssa.DebugRef:
		// collected when the frame is created
	case *ssa.Alloc:
		fr.alloc(x)
	case *ssa.FieldAddr:
		base := fr.lval(x.X)
		if base.Kind == lvRef {
			enc.oblige("safety:nil", fr.where(x), "nil dereference in field access", nil, pc, Not(Eq(base.Ref, IntLit(0))))
		}
		fr.lvals[x] = &LVal{Kind: lvField, Parent: base, Idx: x.Field,
			Ty: base.Ty.Underlying().(*types.Struct).Field(x.Field).Type()}
	case *ssa.Field:
		s := w.structSort(x.X.Type())
		fr.vals[x] = A(s.acc(x.Field), fr.val(x.X))
	case *ssa.IndexAddr:
		idx := fr.val(x.Index)
		switch t := x.X.Type().Underlying().(type) {
		case *types.Slice:
			sl := fr.val(x.X)
			enc.oblige("safety:index", fr.where(x), "index out of range", nil, pc, And(Le(IntLit(0), idx), Lt(idx, A("s_len", sl))))
			fr.lvals[x] = &LVal{Kind: lvElem, Base: A("s_base", sl), Index: Sidx(A("s_off", sl), idx), Ty: t.Elem()}
		case *types.Pointer:
			at := t.Elem().Underlying().(*types.Array)
			ref := fr.val(x.X)
			enc.oblige("safety:index", fr.where(x), "index out of range", nil, pc, And(Le(IntLit(0), idx), Lt(idx, IntLit(at.Len()))))
			fr.lvals[x] = &LVal{Kind: lvElem, Base: ref, Index: idx, Ty: at.Elem()}
		default:
			enc.unsup("IndexAddr on %s", x.X.Type())
		}
	case *ssa.Index:
		idx := fr.val(x.Index)
		if b, ok := x.X.Type().Underlying().(*types.Basic); ok && b.Info()&types.IsString != 0 {
			s := fr.val(x.X)
			enc.oblige("safety:index", fr.where(x), "string index out of range", nil, pc, And(Le(IntLit(0), idx), Lt(idx, A("str.len", s))))
			fr.vals[x] = A("str.to_code", A("str.at", s, idx))
		} else {
			enc.unsup("Index on %s", x.X.Type())
		}
	case *ssa.Lookup:
		fr.lookup(x)
	case *ssa.UnOp:
		fr.unop(x)
	case *ssa.BinOp:
		fr.vals[x] = fr.binop(x)
	case *ssa.Call:
		res := fr.call(x, &x.Call)
		switch len(res) {
		case 0:
		case 1:
			fr.vals[x] = res[0]
		default:
			fr.tuples[x] = res
		}
	case *ssa.ChangeType:
		fr.vals[x] = fr.val(x.X)
	case *ssa.Convert:
		fr.convert(x)
	case *ssa.ChangeInterface:
		fr.vals[x] = fr.val(x.X)
	case *ssa.MakeInterface:
		fr.vals[x] = w.box(fr.val(x.X), x.X.Type())
	case *ssa.TypeAssert:
		fr.typeAssert(x)
	case *ssa.Extract:
		tup, ok := fr.tuples[x.Tuple]
		if !ok {
			enc.unsup("extract from unknown tuple %s", x.Tuple.Name())
		}
		fr.vals[x] = tup[x.Index]
	case *ssa.MakeClosure:
		fr.closures[x] = x
		cv := enc.declare("clos_"+x.Fn.Name(), "Int")
		enc.assume(Lt(IntLit(0), cv), "function literal is non-nil")
		fr.vals[x] = cv
	case *ssa.MakeSlice:
		l, c := fr.val(x.Len), fr.val(x.Cap)
		enc.oblige("safety:make", fr.where(x), "make: len out of range", nil, pc, And(Le(IntLit(0), l), Le(l, c)))
		ref := fr.freshRef(st)
		elT := x.Type().Underlying().(*types.Slice).Elem()
		es := w.sortOf(elT)
		arrS := arraySort("Int", es)
		h := st.Get(heapSliceNameT(elT), arraySort("Int", arrS))
		enc.assume(Eq(Select(h, ref), w.zero(arrS)), "make: zeroed backing array")
		fr.vals[x] = enc.define(x.Name(), "Slice", A("mk_slice", ref, IntLit(0), l, c))
	case *ssa.MakeMap:
		ref := fr.freshRef(st)
		mt := x.Type().Underlying().(*types.Map)
		ks, vs := w.sortOf(mt.Key()), w.sortOf(mt.Elem())
		has := st.Get("M."+ks+"."+vs+".has", arraySort("Int", arraySort(ks, "Bool")))
		enc.assume(Eq(Select(has, ref), A("(as const "+arraySort(ks, "Bool")+")", tFalse)), "make: empty map")
		fr.vals[x] = ref
	case *ssa.MapUpdate:
		mt := x.Map.Type().Underlying().(*types.Map)
		ks, vs := w.sortOf(mt.Key()), w.sortOf(mt.Elem())
		m, k, v := fr.val(x.Map), fr.val(x.Key), fr.val(x.Value)
		enc.oblige("safety:nil", fr.where(x), "assignment to entry in nil map", nil, pc, Not(Eq(m, IntLit(0))))
		hn, vn := "M."+ks+"."+vs+".has", "M."+ks+"."+vs+".val"
		has := st.Get(hn, arraySort("Int", arraySort(ks, "Bool")))
		val := st.Get(vn, arraySort("Int", arraySort(ks, vs)))
		st.Set(hn, Store(has, m, Store(Select(has, m), k, tTrue)))
		st.Set(vn, Store(val, m, Store(Select(val, m), k, v)))
	case *ssa.Slice:
		fr.sliceOp(x)
	case *ssa.Store:
		fr.store(fr.lval(x.Addr), fr.val(x.Val), st)
	case *ssa.Range:
		fr.vals[x] = enc.declare("range", "Int")
		if mt, ok := x.X.Type().Underlying().(*types.Map); ok {
			// ghost: the set of keys this range has yielded so far (empty before the first Next)
			name, so := fr.visName(x), arraySort(enc.w.sortOf(mt.Key()), "Bool")
			enc.w.heapSorts[name] = so
			st.Set(name, A("(as const "+so+")", tFalse))
		}
	case *ssa.Next:
		fr.next(x)
	case *ssa.RunDefers:
		// the deferred calls recorded on this path run in reverse order; each one only if its defer
		// statement was executed (its path condition)
		for i := len(fr.deferred) - 1; i >= 0; i-- {
			d := fr.deferred[i]
			before := fr.cur.clone()
			saved := fr.curPC
			fr.curPC = enc.define("pc_defer", "Bool", And(saved, d.pc))
			fr.call(d.ins, &d.ins.Call)
			after := fr.cur
			fr.cur = enc.mergeStates([]*State{after, before}, []*Term{d.pc, Not(d.pc)})
			fr.curPC = saved
		}
	case *ssa.Defer:
		for _, l := range fr.loops {
			if l.body[fr.curBlock.Index] {
				enc.unsup("%s: defer inside a loop", fr.fn.Name())
			}
		}
		fr.deferred = append(fr.deferred, deferredCall{ins: x, pc: pc})
	case *ssa.Go, *ssa.Select, *ssa.Send:
		enc.unsup("%s: instruction %T outside the modelled subset", fr.fn.Name(), ins)
	case *ssa.Panic:
		enc.oblige("safety:panic", fr.where(x), "explicit panic reachable", nil, pc, tFalse)
	case *ssa.If:
		c := fr.val(x.Cond)
		b := fr.curBlock
		t := enc.define(fmt.Sprintf("e_%s%d_%d", fr.pfx, b.Index, b.Succs[0].Index), "Bool", And(pc, c))
		f := enc.define(fmt.Sprintf("e_%s%d_%d", fr.pfx, b.Index, b.Succs[1].Index), "Bool", And(pc, Not(c)))
		if b.Succs[0] == b.Succs[1] {
			fr.edge[[2]int{b.Index, b.Succs[0].Index}] = pc
		} else {
			fr.edge[[2]int{b.Index, b.Succs[0].Index}] = t
			fr.edge[[2]int{b.Index, b.Succs[1].Index}] = f
		}
	case *ssa.Jump:
		b := fr.curBlock
		fr.edge[[2]int{b.Index, b.Succs[0].Index}] = pc
	case *ssa.Return:
		var res []*Term
		for _, r := range x.Results {
			res = append(res, fr.val(r))
		}
		fr.exits = append(fr.exits, exitPoint{pc: pc, results: res, state: st.clone()})
	default:
		enc.unsup("%s: instruction %T outside the modelled subset", fr.fn.Name(), ins)
	}
}

func (fr *Frame) freshRef(st *State) *Term {
	enc := fr.enc
	cnt := st.Get("$cnt", "Int")
	ref := enc.define("ref", "Int", cnt)
	ncnt := enc.define("cnt", "Int", Add(cnt, IntLit(1)))
	st.Set("$cnt", ncnt)
	return ref
}

func (fr *Frame) alloc(x *ssa.Alloc) {
	enc := fr.enc
	w := enc.w
	st := fr.cur
	ref := fr.freshRef(st)
	fr.vals[x] = ref
	el := x.Type().(*types.Pointer).Elem()
	e := fr.env(st)
	switch u := el.Underlying().(type) {
	case *types.Struct:
		if isBuilderType(el) {
			enc.assume(Eq(Select(st.Get("Bld", arraySort("Int", "String")), ref), StrLit("")), "new builder is empty")
			return
		}
		s := w.structSort(el)
		for i, f := range s.Fields {
			enc.assume(Eq(e.loadField(st, s, i, ref), w.zero(f.Sort)), "new memory is zeroed")
		}
	case *types.Array:
		es := w.sortOf(u.Elem())
		arrS := arraySort("Int", es)
		h := st.Get(heapSliceNameT(u.Elem()), arraySort("Int", arrS))
		enc.assume(Eq(Select(h, ref), w.zero(arrS)), "new array is zeroed")
	default:
		so := w.sortOf(el)
		h := st.Get(heapBoxName(so), arraySort("Int", so))
		enc.assume(Eq(Select(h, ref), w.zero(so)), "new memory is zeroed")
	}
}

func (fr *Frame) unop(x *ssa.UnOp) {
	enc := fr.enc
	switch x.Op {
	case token.MUL:
		lv := fr.lval(x.X)
		if lv.Kind == lvRef {
			enc.oblige("safety:nil", fr.where(x), "nil pointer dereference", nil, fr.curPC, Not(Eq(lv.Ref, IntLit(0))))
		}
		so := enc.w.sortOf(x.Type())
		v := enc.define(fr.pfx+x.Name(), so, fr.load(lv, fr.cur))
		fr.assumeWF(v, x.Type(), fr.cur, 1)
		fr.vals[x] = v
	case token.NOT:
		fr.vals[x] = Not(fr.val(x.X))
	case token.SUB:
		fr.vals[x] = A("-", fr.val(x.X))
	default:
		enc.unsup("unary operator %s", x.Op)
	}
}

func (fr *Frame) binop(x *ssa.BinOp) *Term {
	enc := fr.enc
	a, b := fr.val(x.X), fr.val(x.Y)
	so := enc.w.sortOf(x.X.Type())
	switch x.Op {
	case token.EQL, token.NEQ:
		var eq *Term
		switch so {
		case "Slice":
			// only comparison with nil is legal in Go
			if c, ok := x.Y.(*ssa.Const); ok && c.Value == nil {
				eq = Eq(A("s_base", a), IntLit(0))
			} else if c, ok := x.X.(*ssa.Const); ok && c.Value == nil {
				eq = Eq(A("s_base", b), IntLit(0))
			} else {
				enc.unsup("slice comparison")
			}
		default:
			eq = Eq(a, b)
		}
		if x.Op == token.NEQ {
			return Not(eq)
		}
		return eq
	case token.ADD:
		if so == "String" {
			return A("str.++", a, b)
		}
		return Add(a, b)
	case token.SUB:
		return Sub(a, b)
	case token.MUL:
		return A("*", a, b)
	case token.QUO:
		enc.oblige("safety:div", fr.where(x), "division by zero", nil, fr.curPC, Not(Eq(b, IntLit(0))))
		return A("div", a, b)
	case token.REM:
		enc.oblige("safety:div", fr.where(x), "division by zero", nil, fr.curPC, Not(Eq(b, IntLit(0))))
		// Go's % truncates toward zero; for non-negative operands it coincides with mod
		return A("mod", a, b)
	case token.LSS:
		if so == "String" {
			return A("str.<", a, b)
		}
		return Lt(a, b)
	case token.LEQ:
		if so == "String" {
			return A("str.<=", a, b)
		}
		return Le(a, b)
	case token.GTR:
		if so == "String" {
			return A("str.<", b, a)
		}
		return Lt(b, a)
	case token.GEQ:
		if so == "String" {
			return A("str.<=", b, a)
		}
		return Le(b, a)
	case token.AND, token.OR, token.XOR, token.SHL, token.SHR, token.AND_NOT:
		if so == "Bool" {
			if x.Op == token.AND {
				return And(a, b)
			}
			if x.Op == token.OR {
				return Or(a, b)
			}
		}
		f := enc.w.ufunc("bitop_"+mangle(x.Op.String()), []string{"Int", "Int"}, "Int")
		return A(f, a, b)
	}
	enc.unsup("binary operator %s", x.Op)
	return nil
}

func (fr *Frame) convert(x *ssa.Convert) {
	enc := fr.enc
	w := enc.w
	from, to := x.X.Type().Underlying(), x.Type().Underlying()
	v := fr.val(x.X)
	fs, ts := w.sortOf(from), w.sortOf(to)
	switch {
	case fs == ts && fs != "Slice":
		fr.vals[x] = v
	case fs == "Slice" && ts == "String":
		f := w.ufunc("str_of_bytes", []string{"Slice"}, "String")
		w.assumptions["string([]byte) is an uninterpreted function of the slice header (byte arrays are never mutated by convergen)"] = true
		fr.vals[x] = A(f, v)
	case fs == "String" && ts == "Slice":
		f := w.ufunc("bytes_of_str", []string{"String"}, "Slice")
		r := A(f, v)
		g := w.ufunc("str_of_bytes", []string{"Slice"}, "String")
		enc.assume(Eq(A(g, r), v), "[]byte(s) round-trips")
		fr.vals[x] = r
	case fs == "Int" && ts == "String":
		f := w.ufunc("str_of_rune", []string{"Int"}, "String")
		fr.vals[x] = A(f, v)
	case fs == "Slice" && ts == "Slice":
		fr.vals[x] = v
	default:
		enc.unsup("conversion %s -> %s", x.X.Type(), x.Type())
	}
}

func (fr *Frame) typeAssert(x *ssa.TypeAssert) {
	enc := fr.enc
	w := enc.w
	v := fr.val(x.X)
	var ok, res *Term
	if _, isIface := x.AssertedType.Underlying().(*types.Interface); isIface {
		f := w.ufunc("implements", []string{"Int", "Any"}, "Bool")
		ok = And(Not(Eq(v, Leaf("any_nil"))), A(f, IntLit(int64(w.typeID(x.AssertedType))), v))
		if it := x.AssertedType.Underlying().(*types.Interface); it.NumMethods() == 0 {
			ok = Not(Eq(v, Leaf("any_nil")))
		}
		res = v
	} else {
		ok = w.isDyn(v, x.AssertedType)
		res = w.unbox(v, x.AssertedType)
	}
	so := w.sortOf(x.AssertedType)
	if x.CommaOk {
		okc := enc.define(fr.pfx+x.Name()+"_ok", "Bool", ok)
		r := enc.define(fr.pfx+x.Name()+"_v", so, Ite(okc, res, w.zero(so)))
		if so == "Int" {
			cnt := fr.cur.Get("$cnt", "Int")
			enc.assume(Implies(okc, And(Le(IntLit(0), r), Lt(r, cnt))), "asserted pointer is allocated")
			if _, isPtr := x.AssertedType.Underlying().(*types.Pointer); isPtr {
				enc.assume(Implies(okc, Not(Eq(r, IntLit(0)))), "")
			}
		}
		fr.tuples[x] = []*Term{r, okc}
		return
	}
	enc.oblige("safety:typeassert", fr.where(x), "unchecked type assertion", nil, fr.curPC, ok)
	r := enc.define(fr.pfx+x.Name(), so, res)
	fr.assumeWF(r, x.AssertedType, fr.cur, 0)
	fr.vals[x] = r
}

func (fr *Frame) sliceOp(x *ssa.Slice) {
	enc := fr.enc
	pc := fr.curPC
	var lo, hi *Term
	if x.Low != nil {
		lo = fr.val(x.Low)
	} else {
		lo = IntLit(0)
	}
	switch t := x.X.Type().Underlying().(type) {
	case *types.Basic: // string
		s := fr.val(x.X)
		if x.High != nil {
			hi = fr.val(x.High)
		} else {
			hi = A("str.len", s)
		}
		enc.oblige("safety:slice", fr.where(x), "slice bounds out of range", nil, pc, And(Le(IntLit(0), lo), Le(lo, hi), Le(hi, A("str.len", s))))
		fr.vals[x] = enc.define(fr.pfx+x.Name(), "String", A("str.substr", s, lo, Sub(hi, lo)))
	case *types.Slice:
		s := fr.val(x.X)
		if x.High != nil {
			hi = fr.val(x.High)
		} else {
			hi = A("s_len", s)
		}
		mx := A("s_cap", s)
		if x.Max != nil {
			mx = fr.val(x.Max)
			enc.oblige("safety:slice", fr.where(x), "slice bounds out of range", nil, pc, And(Le(hi, mx), Le(mx, A("s_cap", s))))
		}
		enc.oblige("safety:slice", fr.where(x), "slice bounds out of range", nil, pc, And(Le(IntLit(0), lo), Le(lo, hi), Le(hi, A("s_cap", s))))
		fr.vals[x] = enc.define(fr.pfx+x.Name(), "Slice", A("mk_slice", A("s_base", s), Add(A("s_off", s), lo), Sub(hi, lo), Sub(mx, lo)))
	case *types.Pointer: // pointer to array
		at := t.Elem().Underlying().(*types.Array)
		ref := fr.val(x.X)
		n := IntLit(at.Len())
		if x.High != nil {
			hi = fr.val(x.High)
		} else {
			hi = n
		}
		enc.oblige("safety:slice", fr.where(x), "slice bounds out of range", nil, pc, And(Le(IntLit(0), lo), Le(lo, hi), Le(hi, n)))
		fr.vals[x] = enc.define(fr.pfx+x.Name(), "Slice", A("mk_slice", ref, lo, Sub(hi, lo), Sub(n, lo)))
	default:
		enc.unsup("slice of %s", x.X.Type())
	}
}

func (fr *Frame) lookup(x *ssa.Lookup) {
	enc := fr.enc
	w := enc.w
	switch t := x.X.Type().Underlying().(type) {
	case *types.Map:
		ks, vs := w.sortOf(t.Key()), w.sortOf(t.Elem())
		m, k := fr.val(x.X), fr.val(x.Index)
		has := fr.cur.Get("M."+ks+"."+vs+".has", arraySort("Int", arraySort(ks, "Bool")))
		val := fr.cur.Get("M."+ks+"."+vs+".val", arraySort("Int", arraySort(ks, vs)))
		// a nil map reads as empty
		present := And(Not(Eq(m, IntLit(0))), Select(Select(has, m), k))
		v := enc.define(fr.pfx+x.Name(), vs, Ite(present, Select(Select(val, m), k), w.zero(vs)))
		fr.assumeWF(v, t.Elem(), fr.cur, 0)
		for _, ti := range w.P.TypeInvs[types.TypeString(x.X.Type(), nil)] {
			if len(ti.Vars) == 2 {
				fr.assumeTypeInv(ti, []*Term{m, k}, []types.Type{x.X.Type(), t.Key()}, fr.cur)
			}
		}
		if x.CommaOk {
			fr.tuples[x] = []*Term{v, enc.define(fr.pfx+x.Name()+"_ok", "Bool", present)}
		} else {
			fr.vals[x] = v
		}
	case *types.Basic:
		s, i := fr.val(x.X), fr.val(x.Index)
		enc.oblige("safety:index", fr.where(x), "string index out of range", nil, fr.curPC, And(Le(IntLit(0), i), Lt(i, A("str.len", s))))
		fr.vals[x] = A("str.to_code", A("str.at", s, i))
	default:
		enc.unsup("lookup on %s", x.X.Type())
	}
}

func (fr *Frame) next(x *ssa.Next) {
	enc := fr.enc
	w := enc.w
	rng, ok := x.Iter.(*ssa.Range)
	if !ok {
		enc.unsup("next on non-range")
	}
	okc := enc.declare(fr.pfx+x.Name()+"_ok", "Bool")
	if x.IsString {
		s := fr.val(rng.X)
		k := enc.declare(fr.pfx+x.Name()+"_k", "Int")
		v := enc.declare(fr.pfx+x.Name()+"_r", "Int")
		enc.assume(Implies(okc, And(Le(IntLit(0), k), Lt(k, A("str.len", s)))), "range over string yields valid offsets")
		// the first iteration starts at offset 0 (used by isValidIdentifier-style loops)
		fr.tuples[x] = []*Term{okc, k, v}
		return
	}
	mt := rng.X.Type().Underlying().(*types.Map)
	ks, vs := w.sortOf(mt.Key()), w.sortOf(mt.Elem())
	m := fr.val(rng.X)
	k := enc.declare(fr.pfx+x.Name()+"_k", ks)
	has := fr.cur.Get("M."+ks+"."+vs+".has", arraySort("Int", arraySort(ks, "Bool")))
	val := fr.cur.Get("M."+ks+"."+vs+".val", arraySort("Int", arraySort(ks, vs)))
	enc.assume(Implies(okc, And(Not(Eq(m, IntLit(0))), Select(Select(has, m), k))), "range over map yields present keys")
	v := enc.define(fr.pfx+x.Name()+"_v", vs, Select(Select(val, m), k))
	fr.tuples[x] = []*Term{okc, k, v}
	// ghost visited set: a key is yielded at most once; when the iteration ends (ok false) every key of the
	// map has been yielded - provided the loop itself does not write maps of this type (Go leaves the visit
	// of entries added or removed during the iteration unspecified, nothing is assumed then)
	name, so := fr.visName(rng), arraySort(ks, "Bool")
	w.heapSorts[name] = so
	vis := fr.cur.Get(name, so)
	enc.assume(Implies(okc, Not(Select(vis, k))), "range over map yields each key at most once")
	fr.cur.Set(name, enc.define(fr.pfx+x.Name()+"_vis", so, Ite(okc, Store(vis, k, tTrue), vis)))
	if !fr.writesMapIn(x.Block(), "M."+ks+"."+vs+".has") {
		q := Leaf(fmt.Sprintf("q_vis_%d", w.fresh()))
		pres := Select(Select(has, m), q)
		enc.assume(Implies(And(Not(okc), Not(Eq(m, IntLit(0)))), A("forall", A("(("+q.Op+" "+ks+"))"),
			A("!", Implies(pres, Select(vis, q)), Leaf(":pattern"), A("", pres)))), "range over map ends only after every key was yielded")
		w.assumptions["range over a map yields every key exactly once, in an arbitrary order (Go spec; the loop does not write the map)"] = true
	} else {
		w.assumptions["range over a map that the loop writes: an arbitrary sequence of distinct present keys (completeness not assumed)"] = true
	}
}

// visName is the state variable holding the visited-key set of a range over a map.
func (fr *Frame) visName(rng *ssa.Range) string {
	ks := "x"
	if mt, ok := rng.X.Type().Underlying().(*types.Map); ok {
		ks = fr.enc.w.sortOf(mt.Key())
	}
	name := "$vis." + mangle(ks) + "." + mangle(fr.fn.String()) + "." + fr.pfx + rng.Name()
	fr.enc.w.heapSorts[name] = arraySort(ks, "Bool")
	return name
}

// writesMapIn reports whether the innermost loop containing block b may write the given map heap.
func (fr *Frame) writesMapIn(b *ssa.BasicBlock, heapName string) bool {
	var best *loopInfo
	for _, li := range fr.loops {
		if li.body[b.Index] && (best == nil || len(li.body) < len(best.body)) {
			best = li
		}
	}
	if best == nil {
		return true
	}
	ms := newModSet()
	fr.modifiedIn(fr.fn, best.body, ms, fr.ssaBindings(), 0)
	if ms.all {
		return true
	}
	_, w := ms.m[heapName]
	return w
}
