package main

import (
	"fmt"
	"go/types"
	"sort"
	"strings"
)

// World holds everything shared by all functions of one run: sorts, datatypes, uninterpreted
// functions, type identifiers.
type World struct {
	P *Program

	structs     map[string]*StructSort // by canonical Go type string
	structOrder []*StructSort
	bySortName  map[string]*StructSort
	boxed       map[string]bool // struct sort names with a box_ constructor (all of them)

	typeIDs map[string]int
	typeIDNames []string

	ufuncs  map[string]*UFunc
	uforder []string

	usorts map[string]bool // uninterpreted sorts

	heapSorts map[string]string // heap variable -> SMT sort

	assumptions map[string]bool // assumption inventory (reported in evidence)
	unresolved  map[string]string // constants standing for clauses that could not be evaluated -> why
	uncontracted map[string]bool
	libUsed map[string]bool

	pureAliases map[string]*PureFn
	pureByKey   map[string]*PureFn
	pureByName  map[string]*PureFn
	counter     int
	readsDone   bool
	discovering bool
	axioms      []*compiledAxiom
	axiomsUsed  map[string]bool
	sliceKeyElem map[string]types.Type
	globalSorts  map[string]string
}

type FieldInfo struct {
	Name string
	Sort string
	Type types.Type
}

type StructSort struct {
	Name   string // SMT sort name
	GoName string
	T      *types.Struct
	Named  types.Type
	Fields []FieldInfo
}

type UFunc struct {
	Name string
	Args []string
	Res  string
}

func newWorld(P *Program) *World {
	w := newWorld0(P)
	w.sliceKeyElem = map[string]types.Type{}
	w.globalSorts = map[string]string{}
	gWorld = w
	return w
}

func newWorld0(P *Program) *World {
	return &World{P: P, structs: map[string]*StructSort{}, bySortName: map[string]*StructSort{}, boxed: map[string]bool{},
		typeIDs: map[string]int{}, ufuncs: map[string]*UFunc{}, usorts: map[string]bool{},
		heapSorts: map[string]string{}, axiomsUsed: map[string]bool{}, assumptions: map[string]bool{}, unresolved: map[string]string{}, uncontracted: map[string]bool{}, libUsed: map[string]bool{}}
}

func (w *World) typeID(t types.Type) int {
	k := types.TypeString(t, nil)
	if id, ok := w.typeIDs[k]; ok {
		return id
	}
	id := len(w.typeIDs) + 1
	w.typeIDs[k] = id
	w.typeIDNames = append(w.typeIDNames, k)
	return id
}

func shortTypeName(s string) string {
	s = strings.ReplaceAll(s, repoMod+"/pkg/", "")
	s = strings.ReplaceAll(s, repoMod+"/", "")
	s = strings.ReplaceAll(s, "golang.org/x/tools/", "xt/")
	return s
}

// sortOf maps a Go type to an SMT sort name.
func (w *World) sortOf(t types.Type) string {
	switch u := t.(type) {
	case *types.Named:
		if _, ok := u.Underlying().(*types.Struct); ok {
			return w.structSort(t).Name
		}
		return w.sortOf(u.Underlying())
	case *types.Alias:
		return w.sortOf(types.Unalias(t))
	case *types.Basic:
		switch {
		case u.Info()&types.IsBoolean != 0:
			return "Bool"
		case u.Info()&types.IsInteger != 0:
			return "Int"
		case u.Info()&types.IsString != 0:
			return "String"
		case u.Kind() == types.UnsafePointer:
			return "Int"
		case u.Kind() == types.UntypedNil:
			return "Int"
		case u.Info()&types.IsFloat != 0:
			return "Real"
		}
		return w.usort("U_" + mangle(u.Name()))
	case *types.Pointer:
		return "Int"
	case *types.Slice:
		return "Slice"
	case *types.Map, *types.Chan:
		return "Int"
	case *types.Signature:
		return "Int"
	case *types.Interface:
		return "Any"
	case *types.Struct:
		return w.structSort(t).Name
	case *types.Array:
		return w.usort("U_array")
	case *types.Tuple:
		return w.usort("U_tuple")
	case *types.TypeParam:
		return w.usort("U_typeparam")
	}
	return w.usort("U_other")
}

func (w *World) usort(name string) string {
	w.usorts[name] = true
	return name
}

func (w *World) structSort(t types.Type) *StructSort {
	key := types.TypeString(t, nil)
	if s, ok := w.structs[key]; ok {
		return s
	}
	st := t.Underlying().(*types.Struct)
	name := "S_" + mangle(shortTypeName(key))
	if len(name) > 60 {
		name = fmt.Sprintf("S_anon%d", len(w.structs))
	}
	s := &StructSort{Name: name, GoName: key, T: st, Named: t}
	w.structs[key] = s
	w.bySortName[name] = s
	w.structOrder = append(w.structOrder, s)
	w.boxed[name] = true
	for i := 0; i < st.NumFields(); i++ {
		f := st.Field(i)
		s.Fields = append(s.Fields, FieldInfo{Name: f.Name(), Type: f.Type()})
	}
	for i := range s.Fields {
		s.Fields[i].Sort = w.sortOf(s.Fields[i].Type)
	}
	for i := range s.Fields {
		accessorOf[s.acc(i)] = struct {
			ctor string
			idx  int
		}{s.ctor(), i}
	}
	accessorOf["un_"+s.Name] = struct {
		ctor string
		idx  int
	}{"box_" + s.Name, 0}
	return s
}

func (s *StructSort) ctor() string         { return "mk_" + s.Name }
func (s *StructSort) acc(i int) string {
	if s.Fields[i].Name == "_" {
		return fmt.Sprintf("%s_blank%d", s.Name, i)
	}
	return s.Name + "_" + mangle(s.Fields[i].Name)
}
func (s *StructSort) fieldIndex(name string) int {
	for i, f := range s.Fields {
		if f.Name == name {
			return i
		}
	}
	return -1
}

// zero value of a sort
func (w *World) zero(sortName string) *Term {
	switch sortName {
	case "Int":
		return IntLit(0)
	case "Real":
		return Leaf("0.0")
	case "Bool":
		return tFalse
	case "String":
		return StrLit("")
	case "Slice":
		return nilSlice
	case "Any":
		return Leaf("any_nil")
	}
	if s, ok := w.bySortName[sortName]; ok {
		args := make([]*Term, len(s.Fields))
		for i, f := range s.Fields {
			args[i] = w.zero(f.Sort)
		}
		if len(args) == 0 {
			return Leaf(s.ctor())
		}
		return A(s.ctor(), args...)
	}
	if strings.HasPrefix(sortName, "(Array ") {
		// constant array of zero values
		in := strings.TrimSuffix(strings.TrimPrefix(sortName, "(Array "), ")")
		// split index sort and element sort
		idx, el := splitSortPair(in)
		_ = idx
		return A("(as const "+sortName+")", w.zero(el))
	}
	// uninterpreted sort: a distinguished constant
	return Leaf(w.uconst("zero_"+sortName, sortName))
}

func splitSortPair(s string) (string, string) {
	d := 0
	for i := 0; i < len(s); i++ {
		switch s[i] {
		case '(':
			d++
		case ')':
			d--
		case ' ':
			if d == 0 {
				return s[:i], s[i+1:]
			}
		}
	}
	return s, ""
}

func (w *World) uconst(name, sortName string) string {
	if _, ok := w.ufuncs[name]; !ok {
		w.ufuncs[name] = &UFunc{Name: name, Res: sortName}
		w.uforder = append(w.uforder, name)
	}
	return name
}

func (w *World) ufunc(name string, args []string, res string) string {
	if f, ok := w.ufuncs[name]; ok {
		if len(f.Args) != len(args) || f.Res != res {
			panic(fmt.Sprintf("ufunc %s redeclared with different signature: %v->%s vs %v->%s", name, f.Args, f.Res, args, res))
		}
		return name
	}
	w.ufuncs[name] = &UFunc{Name: name, Args: args, Res: res}
	w.uforder = append(w.uforder, name)
	return name
}

var nilSlice = A("mk_slice", IntLit(0), IntLit(0), IntLit(0), IntLit(0))

func arraySort(idx, el string) string { return "(Array " + idx + " " + el + ")" }

// prelude renders sort/datatype/function declarations.
func (w *World) prelude() string {
	var sb strings.Builder
	us := sortedKeys(w.usorts)
	for _, u := range us {
		fmt.Fprintf(&sb, "(declare-sort %s 0)\n", u)
	}
	// datatypes: Slice, Any, and all struct sorts, mutually recursive
	names := []string{"Slice", "Any"}
	ss := append([]*StructSort(nil), w.structOrder...)
	sort.Slice(ss, func(i, j int) bool { return ss[i].Name < ss[j].Name })
	for _, s := range ss {
		names = append(names, s.Name)
	}
	sb.WriteString("(declare-datatypes (")
	for _, n := range names {
		fmt.Fprintf(&sb, "(%s 0) ", n)
	}
	sb.WriteString(") (\n")
	sb.WriteString(" ((mk_slice (s_base Int) (s_off Int) (s_len Int) (s_cap Int)))\n")
	sb.WriteString(" ((any_nil) (box_ptr (ptag Int) (pref Int)) (box_str (stag Int) (sval String)) (box_int (itag Int) (ival Int)) (box_bool (btag Int) (bval Bool)) (box_other (otag Int) (oid Int))")
	for _, s := range ss {
		fmt.Fprintf(&sb, " (box_%s (un_%s %s))", s.Name, s.Name, s.Name)
	}
	sb.WriteString(")\n")
	for _, s := range ss {
		fmt.Fprintf(&sb, " ((%s", s.ctor())
		for i, f := range s.Fields {
			fmt.Fprintf(&sb, " (%s %s)", s.acc(i), f.Sort)
		}
		sb.WriteString("))\n")
	}
	sb.WriteString("))\n")
	sb.WriteString("(declare-fun sidx (Int Int) Int)\n(assert (forall ((o Int) (i Int)) (! (= (sidx o i) (+ o i)) :pattern ((sidx o i)))))\n")
	for _, n := range w.uforder {
		f := w.ufuncs[n]
		fmt.Fprintf(&sb, "(declare-fun %s (%s) %s)\n", f.Name, strings.Join(f.Args, " "), f.Res)
		if strings.HasPrefix(f.Name, "fnid_") {
			fmt.Fprintf(&sb, "(assert (< 0 %s))\n", f.Name)
		}
	}
	return sb.String()
}
