#!/usr/bin/env python3
# Regenerates /verif/MANIFEST.json from the table below (kept in one place so it stays consistent).
import json, subprocess
claimed = {
 "C07": "error guard text: AssignmentToString == guarded(f,a); hook calls end with the error return iff the hook returns an error (manipCall); statement templates of every Assignment implementation; MethodEntry.RetError == retErr spec",
 "C08": "signatures: FuncToString == funcText (header/params/results written from the README), Var.FullType, MethodEntry.SrcVar/DstVar/AdditionalArgVars, NewDstVarStyleFromValue, :reverse/:style legality in parseNotationInComments, arity checks in parseMethod, one entry per method in parseMethods/Parse",
 "C09": "notation scoping: parseNotationInComments computes the left fold of the README table over the notation lines (toggleAfter/styleAfter/ruleAfter) for any number of lines; findConvergenEntries parses into a copy that starts from the parser defaults, stores that copy, and never assigns the defaults (frame); per-method options start from the interface's; list-valued options are append-only into fresh storage (no aliasing across copies); PatternMatcher representation invariant",
 "C10": "hook calls: ManipulatorToString == manipCall (destination first, source second, &/* adaptation, additional arguments iff declared); placement inside funcText (after dst allocation, before/after all assignments); lookupManipulatorFunc shape validation and faithful recording of parameter types",
 "C14": "no panic (nil dereference, index/slice bounds, unchecked type assertion, negative make) in every function under contract of parser/option/util/config/generator; notation and lookup errors carry the file:line:col prefix; parseMethods is all-or-nothing (err == nil implies one entry per method of the method set)",
 "C15": "Generate writes at most once, only to outPath, only the formatted bytes, never with dryRun, and an error return with a write recorded is the write's own failure; ParseArgs path derivation",
 "C16": "the three slice assignment String() methods equal their make/copy/loop templates with the nil guard",
 "C17": "findConvergenEntries: every entry is an interface declared in the input file and named Convergen or marked (asserted where the entry is created), entries in sorted scope order, no interface means an error; doc comment lookup returns the doc of the declaring node only; Parse yields one MethodsInfo per entry with that entry's marker and one method entry per method",
 "C18": "ParseArgs: Input/Output/Log/DryRun/Prints as documented (GOFILE fallback, .gen before the extension, -out, -log next to the output); Generate: with -print exactly one stdout write whose payload is the formatted code (written or, with -dry, that would have been written)",
 "C19": "PatternMatcher.Match == refMatch(pattern, path, case rule) (equality / Unicode fold for plain patterns, RE2 search / (?i) search for /regexp/) for every matcher state, representation invariant preserved across case switches; IdentMatcher/NameMatcher/FieldConverter/LiteralSetter comparisons; ShouldSkip == exists skip pattern matching; CompareFieldName",
}
not_yet = {
 "C01": "not claimed yet: the typing/rendering lemmas live in pkg/builder, whose contracts are still being written",
 "C02": "not claimed yet: orientation and node rendering live in pkg/builder (contracts in progress)",
 "C03": "not claimed yet (acceptance is mostly go/printer / regexp-cut / imports.Process behaviour; convergen's own side is spread over C08/C09/C14 obligations already claimed there)",
 "C04": "not claimed yet: castNode / candidate search contracts in pkg/builder are in progress",
 "C05": "not claimed yet: structToStruct contracts in pkg/builder are in progress",
 "C06": "not claimed yet: matchStructFieldAndStruct / resolveExpr contracts in pkg/builder are in progress (matcher and notation-parsing parts are already verified under C19/C09)",
 "C11": "not claimed yet: comment surgery contracts (ExtractMatchComments functional spec, InsertComment, GenerateBaseCode frame) in progress",
 "C12": "not claimed yet: NewParser hook contract in progress; the history-independence of packages.Load / imports.Process is library behaviour outside this family's reach",
 "C13": "not claimed yet: effect whitelist over the whole call graph in progress",
}
hooks_commits = subprocess.run(["git","-C","/repo","log","--format=%h %s"],capture_output=True,text=True).stdout.splitlines()
src = [l.split()[0] for l in hooks_commits if l.split(' ',1)[1].startswith("verif:")]
fixes = [l for l in hooks_commits if l.split(' ',1)[1].startswith("fix:")]
checks=[]
for pid,txt in claimed.items():
    checks.append({
      "property_id":pid,
      "quick_cmd":f"/verif/check {pid} quick",
      "thorough_cmd":f"/verif/check {pid} thorough",
      "evidence_file":f"/verif/evidence/{pid}.json",
      "replay_cmd_template":"/verif/check --replay {path}",
      "engine":"govc",
      "level_claimed":{"category":"proof","text":"contract-based deductive verification of the real Go functions (go/ssa of /repo's working tree, contracts as //@ comments in build-tag-guarded files): "+txt+". Every obligation (postconditions, loop invariants, call preconditions, frames, effect clauses, safety) is discharged by an SMT solver for all inputs and all iteration counts; nothing bounded is counted.","design_ref":"DESIGN.md sections 10 and 14"},
      "level_note":"trusted: go/packages+go/ssa front end, the govc VC generator, z3/cvc5, the assumed library contracts in /verif/lib/*.spec (go/types, regexp, os, fmt, flag, x/tools ... each one used is listed in the evidence); int is mathematical; termination not proved; what the emitted Go text does when compiled and run is Go semantics (trusted)",
      "technique":"contract-based deductive verification (weakest-precondition VCs over go/ssa, z3/cvc5)"
    })
na=[{"property_id":k,"reason":v} for k,v in not_yet.items()]
m={"version":1,
 "setup_cmd":"cd /verif/engine && GOFLAGS=-mod=mod GOPROXY=off GOSUMDB=off GOTOOLCHAIN=local go build -o /verif/bin/govc ./cmd/govc",
 "hooks":{"guard":"verif","enable":"-tags verif (adds comment-only files zz_verif_contracts.go holding the //@ contracts; govc loads /repo with this tag; the compiled tool is identical with and without it)","baseline_off_cmd":"cd /repo && GOFLAGS=-mod=mod GOPROXY=off GOSUMDB=off GOTOOLCHAIN=local go test -vet=off -count=1 ./...","source_commits":src,"add_only":True},
 "engines":[{"name":"govc","path":"/verif/engine","serves_properties":sorted(claimed),"kind_free_text":"self-written verification-condition generator for Go (go/packages + go/ssa -> SMT-LIB), contracts as //@ comments in /repo (build tag verif), z3 5.1.0 / cvc5 1.0.3 / z3 4.8.12 back ends"}],
 "checks":checks,
 "not_applicable":na,
 "notes":"fix: commits in /repo: "+"; ".join(fixes)+". See /verif/known_findings.json and DESIGN.md section 14."}
json.dump(m,open('/verif/MANIFEST.json','w'),indent=1)
print("claimed:",sorted(claimed))
