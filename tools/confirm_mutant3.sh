#!/bin/bash
# usage: confirm_mutant3.sh <candidate-dir>   (third-round layout: patch.diff, demo/<repo-relative paths>, meta.json)
# Confirms a seeded change in a scratch clone of /repo (never in /repo): the patch applies and builds, the existing
# suite still passes with it, and the demonstration tests pass without the patch and fail with it.
export GOFLAGS=-mod=mod GOPROXY=off GOSUMDB=off GOTOOLCHAIN=local
d=$(cd $1 && pwd); id=$(basename $d)
p=$d/patch.diff; [ -f $d/ported.diff ] && p=$d/ported.diff
s=/tmp/cf_$id; rm -rf $s; git clone -q /repo $s || exit 2
cd $s
tests=$(cd $d/demo && grep -h -o '^func Test[A-Za-z0-9_]*' $(find . -name '*_test.go') | sed 's/func //' | sort -u | tr '\n' '|' | sed 's/|$//')
pkgs=$(cd $d/demo && find . -name '*_test.go' -exec dirname {} \; | sort -u | tr '\n' ' ')
if ! git apply --check $p 2>/dev/null; then echo "$id: patch does not apply"; cd /; rm -rf $s; exit 1; fi
git apply $p
if ! go build ./... 2>/tmp/cf_$id.build; then echo "$id: patched tree does not build"; cd /; rm -rf $s; exit 1; fi
suite=PASS; go test -vet=off -count=1 ./... > /tmp/cf_$id.suite 2>&1 || suite=FAIL
rsync -a $d/demo/ $s/
dp=PASS; go test -vet=off -count=1 -timeout 300s -run "^($tests)\$" $pkgs > /tmp/cf_$id.demo_patched 2>&1 || dp=FAIL
git apply -R $p
du_=PASS; go test -vet=off -count=1 -timeout 300s -run "^($tests)\$" $pkgs > /tmp/cf_$id.demo_unpatched 2>&1 || du_=FAIL
echo "$id: build=ok suite_with_patch=$suite demo_unpatched=$du_ demo_patched=$dp pkgs=[$pkgs] tests=[$tests]"
cd /; rm -rf $s
