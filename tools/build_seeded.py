#!/usr/bin/env python3
# Assembles /verif/seeded/<id>/ from the confirmed candidates: patch.diff (the version that applies to the
# current /repo), the demonstration tests with their destination directory, DEMO.md, and meta.json with the
# confirmation result and the obligations of the registered check that fail with the patch applied.
import json, os, re, shutil, glob, sys
src='/verif/seeded_candidates'; dst='/verif/seeded'
confirm={}
for l in open('/verif/seeded_candidates/confirm.log'):
    m=re.match(r'(C\d+_\d): (.*)',l)
    if m: confirm[m.group(1)]=m.group(2).strip()
def unmangle(s):
    s=re.sub(r'x([0-9a-f]{2})', lambda m: chr(int(m.group(1),16)), s)
    s=re.sub(r'^\(P(\w+?)_(\w+)\)_', r'(*\1.\2).', s)
    s=re.sub(r'^\((\w+?)_(\w+)\)_', r'(\1.\2).', s)
    s=re.sub(r'^(undecided_)?([a-z]+)_([A-Za-z]\w*?)(:|$)', r'\1\2.\3\4', s)
    return s
pkgdir={'testing':'tests','builder':'pkg/builder','util':'pkg/util','util_test':'pkg/util','logger':'pkg/logger','option':'pkg/option',
 'parser':'pkg/parser','parser_test':'pkg/parser','generator':'pkg/generator','generator_test':'pkg/generator','runner':'pkg/runner',
 'runner_test':'pkg/runner','config':'pkg/config','model_test':'pkg/generator/model'}
rows=[]
os.makedirs(dst,exist_ok=True)
for id in sorted(os.listdir(src)):
    d=os.path.join(src,id)
    if not os.path.isdir(d): continue
    o=os.path.join(dst,id); shutil.rmtree(o,ignore_errors=True); os.makedirs(o)
    ported=os.path.exists(d+'/ported.diff')
    shutil.copy(d+('/ported.diff' if ported else '/patch.diff'), o+'/patch.diff')
    if ported: shutil.copy(d+'/patch.diff', o+'/patch_as_submitted.diff')
    demos=[]
    for root,_,files in os.walk(d):
        for f in files:
            if f.endswith('_test.go'):
                p=os.path.join(root,f); rel=os.path.relpath(p,d)
                if rel.startswith(('pkg/','tests/')): dest=os.path.dirname(rel)
                else:
                    pk=re.search(r'^package (\w+)',open(p).read(),re.M).group(1); dest=pkgdir[pk]
                os.makedirs(o+'/demo/'+dest,exist_ok=True); shutil.copy(p,o+'/demo/'+dest+'/'+f); demos.append(dest+'/'+f)
    for extra in ('DEMO.md',):
        if os.path.exists(d+'/'+extra): shutil.copy(d+'/'+extra,o+'/'+extra)
    for sub in ('e2e_setup','e2e'):
        if os.path.isdir(d+'/'+sub): shutil.copytree(d+'/'+sub,o+'/'+sub)
    meta=json.load(open(d+'/meta.json'))
    prop=id.split('_')[0]
    def viol(fn):
        out=[]
        if os.path.exists(fn):
            for l in open(fn):
                m=re.search(r'VIOLATION property=\S+ replay=\S+/([^/ ]+)\.json( no-failing-input-found)?',l)
                if m: out.append(unmangle(m.group(1)))
        return out
    vp=viol(d+'/govc_prop.txt'); va=viol(d+'/govc.txt')
    meta.update({'id':id,'property':prop,'patch_ported_to_current_tree':ported,'demo_files':sorted(demos),
      'demo_placement':'copy demo/<dir>/<file> to <repo>/<dir>/ and run go test -vet=off -count=1 -run <TestName> ./<dir>',
      'confirmed':confirm.get(id,'?'),
      'check':'/verif/check %s quick'%prop,'failing_obligations_property_check':vp,'failing_obligations_all_contracts':va,
      'caught':bool(vp),'caught_only_as_undecided':bool(vp) and all(x.startswith('undecided_') for x in vp)})
    json.dump(meta,open(o+'/meta.json','w'),indent=1)
    rows.append((id,prop,bool(vp),meta['caught_only_as_undecided'],vp,va,ported))
# catch matrix (markdown)
lines=['| change | property | what the change does (short) | caught by `/verif/check %s quick` | failing obligations |'%'<id>','|---|---|---|---|---|']
for id,prop,c,und,vp,va,ported in rows:
    meta=json.load(open(dst+'/'+id+'/meta.json'))
    wb=(meta.get('what_breaks') or '')
    wb=re.sub(r'\s+',' ',wb)[:150].replace('|','/')
    ob=', '.join('`%s`'%x.replace('|','/') for x in vp[:3])+(' …(+%d)'%(len(vp)-3) if len(vp)>3 else '')
    lines.append('| %s%s | %s | %s… | %s | %s |'%(id,'ᵖ' if ported else '',prop,wb,('**no**' if not c else ('yes (undecided: contract no longer matches the code)' if und else 'yes')),ob or '–'))
open('/verif/seeded/CATCH_MATRIX.md','w').write('\n'.join(lines)+'\n')
print('\n'.join(lines))
