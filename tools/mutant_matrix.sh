#!/bin/bash
# usage: mutant_matrix.sh <dir-with-candidates> [id...] — for every candidate whose patch applies to /repo's HEAD
# tree: copy /repo to a scratch dir, apply the patch there, run the whole verifier against the copy and
# record the violated obligations in <candidate>/govc.txt.  /repo itself is never touched.
export GOFLAGS=-mod=mod GOPROXY=off GOSUMDB=off GOTOOLCHAIN=local
base=$1; shift
ids="$@"; [ -z "$ids" ] && ids=$(ls $base)
for id in $ids; do
  d=$base/$id; p=$d/patch.diff; [ -f $d/ported.diff ] && p=$d/ported.diff
  s=/tmp/mut_$id; rm -rf $s; mkdir -p $s; rsync -a --exclude .git /repo/ $s/repo/
  if ! (cd $s/repo && git init -q . 2>/dev/null && git apply --check $p 2>/dev/null); then echo "$id: DOES-NOT-APPLY" | tee $d/govc.txt; rm -rf $s; continue; fi
  (cd $s/repo && git apply $p)
  /verif/bin/govc verify -repo $s/repo -all -property ALL -evidence $s/ev.json -replays $s/replays 2>&1 | grep -E "VIOLATION|property ALL|UNSUPPORTED|govc:" | cut -c1-300 > $d/govc.txt
  prop=${id%%_*}
  /verif/bin/govc verify -repo $s/repo -property $prop -evidence $s/evp.json -replays $s/replaysp 2>&1 | grep -E "VIOLATION|property $prop|UNSUPPORTED|govc:" | cut -c1-300 > $d/govc_prop.txt
  echo "$id: ALL=$(grep -c VIOLATION $d/govc.txt) $prop=$(grep -c VIOLATION $d/govc_prop.txt); $(tail -1 $d/govc.txt | cut -c1-100)"
  rm -rf $s
done
