#!/bin/bash
# usage: try_mutant.sh <patch> <property>...   — apply a seeded patch to /repo, run the checks, undo.
patch=$1; shift
cd /repo || exit 2
if ! git apply --check "$patch" 2>/dev/null; then echo "PATCH DOES NOT APPLY: $patch"; exit 3; fi
git apply "$patch"
for p in "$@"; do
  echo "--- $p on $(basename $(dirname $patch))"
  /verif/check $p quick 2>&1 | grep -E "VIOLATION|KNOWN|property .* tier" | cut -c1-260
done
git -C /repo checkout -- . 
git -C /repo status --short | grep -v '^??' | head -3
