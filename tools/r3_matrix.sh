#!/bin/bash
# usage: r3_matrix.sh <dir-with-candidates> [id...] — like mutant_matrix.sh for ids of the form Cxx_suffix; results in
# <candidate>/govc.txt (whole-contract run) and govc_prop.txt (the property's own check).  /repo is never touched.
export GOFLAGS=-mod=mod GOPROXY=off GOSUMDB=off GOTOOLCHAIN=local
base=$1; shift
ids="$@"; [ -z "$ids" ] && ids=$(ls $base)
for id in $ids; do
  d=$base/$id; p=$d/patch.diff; [ -f $d/ported.diff ] && p=$d/ported.diff
  s=/tmp/mut_$id; rm -rf $s; mkdir -p $s; rsync -a --exclude .git /repo/ $s/repo/
  if ! (cd $s/repo && git init -q . 2>/dev/null && git apply --check $p 2>/dev/null); then echo "$id: DOES-NOT-APPLY" | tee $d/govc.txt; rm -rf $s; continue; fi
  (cd $s/repo && git apply $p)
  prop=${id%%_*}
  /verif/bin/govc verify -repo $s/repo -property $prop -evidence $s/evp.json -replays $s/replaysp 2>&1 | grep -E "VIOLATION|property $prop|UNSUPPORTED|govc:" | cut -c1-300 > $d/govc_prop.txt
  if [ "$ALSO_ALL" = 1 ] || [ $(grep -c VIOLATION $d/govc_prop.txt) = 0 ]; then
    /verif/bin/govc verify -repo $s/repo -all -property ALL -evidence $s/ev.json -replays $s/replays 2>&1 | grep -E "VIOLATION|property ALL|UNSUPPORTED|govc:" | cut -c1-300 > $d/govc.txt
  fi
  echo "$id: $prop=$(grep -c VIOLATION $d/govc_prop.txt) ALL=$( [ -f $d/govc.txt ] && grep -c VIOLATION $d/govc.txt ); $(grep VIOLATION $d/govc_prop.txt | head -3 | sed 's/.*replay=[^ ]*\///' | tr '\n' ' ')"
  rm -rf $s
done
