#!/bin/bash
# usage: revert_fixes_matrix.sh — for every fix: commit in /repo, undo it in a scratch copy of the working tree and
# run the whole verifier there: the defect is back, so some obligation must fail ("a fixed entry suppresses nothing").
export GOFLAGS=-mod=mod GOPROXY=off GOSUMDB=off GOTOOLCHAIN=local
for c in $(git -C /repo log --format=%h --grep='^fix:'); do
  s=/tmp/rv_$c; rm -rf $s; mkdir -p $s; rsync -a --exclude .git /repo/ $s/repo/
  subj=$(git -C /repo log -1 --format=%s $c | cut -c1-70)
  if ! (cd $s/repo && git init -q . && git -C /repo show $c -- . ':!*zz_verif_contracts.go' | git apply -R 2>/dev/null); then echo "$c: DOES-NOT-REVERT-CLEANLY ($subj)"; rm -rf $s; continue; fi
  if ! (cd $s/repo && go build ./... 2>/dev/null); then echo "$c: reverted tree does not build ($subj)"; rm -rf $s; continue; fi
  out=$(/verif/bin/govc verify -repo $s/repo -all -property ALL -evidence $s/ev.json -replays $s/rp 2>&1 | grep -E "^VIOLATION|property ALL")
  echo "$c: $(echo "$out" | grep -c '^VIOLATION') violations with the fix undone ($subj)"
  rm -rf $s
done
