#!/bin/bash
# usage: harmless_matrix.sh — every patch in /verif/selftest/harmless keeps the properties: the verifier must stay silent.
export GOFLAGS=-mod=mod GOPROXY=off GOSUMDB=off GOTOOLCHAIN=local
rc=0
for p in /verif/selftest/harmless/*.diff; do
  id=$(basename $p .diff); s=/tmp/hm_$id; rm -rf $s; mkdir -p $s; rsync -a --exclude .git /repo/ $s/repo/
  (cd $s/repo && git init -q . && git apply $p) || { echo "$id: DOES-NOT-APPLY"; rc=1; rm -rf $s; continue; }
  out=$(/verif/bin/govc verify -repo $s/repo -all -property ALL -evidence $s/ev.json -replays $s/replays 2>&1 | grep -E "VIOLATION|property ALL|govc:")
  n=$(echo "$out" | grep -c VIOLATION)
  echo "$id: $n alarms; $(echo "$out" | tail -1 | cut -c1-140)"; [ $n -ne 0 ] && { echo "$out" | grep VIOLATION | cut -c1-200; rc=1; }
  rm -rf $s
done
exit $rc
