#!/bin/bash
python3-vt - <<'PY'
import json,jsonschema,glob
jsonschema.validate(json.load(open('/verif/MANIFEST.json')),json.load(open('/root/.vp/MANIFEST.schema.json'))); print('manifest ok')
s=json.load(open('/root/.vp/EVIDENCE.schema.json'))
for f in sorted(glob.glob('/verif/evidence/*.json')):
    try:
        jsonschema.validate(json.load(open(f)),s); print('ok',f)
    except Exception as e: print('BAD',f,str(e)[:300])
PY
