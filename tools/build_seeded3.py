#!/usr/bin/env python3
# Assembles /verif/seeded/<Cxx_4|Cxx_5>/ from the third-round candidates in a staging directory (default /tmp/r3out,
# layout: <Cxx_a|Cxx_b>/{patch.diff,demo/<repo-relative files>,meta.json,govc_prop.txt[,govc.txt][,first_prop.txt]}):
# patch.diff, the demonstration (tests and fixtures in repository-relative paths), and meta.json with the
# confirmation result and the obligations of the registered check that fail with the patch applied.
import json, os, re, shutil, sys
src=sys.argv[1] if len(sys.argv)>1 else '/tmp/r3out'; dst='/verif/seeded'
SUFFIX=dict(kv.split('=') for kv in os.environ.get('SUFFIX_MAP','a=4,b=5').split(','))
ROUND=int(os.environ.get('ROUND','3'))
confirm={}
for fn in sys.argv[2:]:
    for l in open(fn):
        m=re.match(r'(C\d+_[ab]): (build=.*)',l)
        if m: confirm[m.group(1)]=m.group(2).strip()
def unmangle(s):
    s=re.sub(r'x([0-9a-f]{2})', lambda m: chr(int(m.group(1),16)), s)
    s=re.sub(r'^\(P(\w+?)_(\w+)\)_', r'(*\1.\2).', s)
    s=re.sub(r'^\((\w+?)_(\w+)\)_', r'(\1.\2).', s)
    s=re.sub(r'^(undecided_)?([a-z]+)_([A-Za-z]\w*?)(:|$)', r'\1\2.\3\4', s)
    return s
def viol(fn):
    out=[]
    if os.path.exists(fn):
        for l in open(fn):
            m=re.search(r'VIOLATION property=\S+ replay=\S+/([^/ ]+)\.json( no-failing-input-found)?',l)
            if m: out.append(unmangle(m.group(1)))
    return out
rows=[]
for cid in sorted(os.listdir(src)):
    m=re.match(r'(C\d+)_([ab])$',cid)
    d=os.path.join(src,cid)
    if not m or cid not in confirm or 'demo_unpatched=PASS demo_patched=FAIL' not in confirm[cid] or 'suite_with_patch=PASS' not in confirm[cid]: continue
    nid=m.group(1)+'_'+SUFFIX[m.group(2)]
    o=os.path.join(dst,nid); shutil.rmtree(o,ignore_errors=True); os.makedirs(o)
    shutil.copy(d+'/patch.diff',o+'/patch.diff')
    shutil.copytree(d+'/demo',o+'/demo')
    demos=[os.path.relpath(os.path.join(r,f),o+'/demo') for r,_,fs in os.walk(o+'/demo') for f in fs if f.endswith('_test.go')]
    meta=json.load(open(d+'/meta.json'))
    vp=viol(d+'/govc_prop.txt'); va=viol(d+'/govc.txt'); first=viol(d+'/first_prop.txt') if os.path.exists(d+'/first_prop.txt') else vp
    meta.update({'id':nid,'round':ROUND,'property':m.group(1),'demo_files':sorted(demos),
      'demo_placement':'copy the tree under demo/ into the repository root (tests and fixtures keep their relative paths) and run go test -vet=off -count=1 -run <TestName> ./<dir of the test>',
      'confirmed':confirm[cid],'check':'/verif/check %s quick'%m.group(1),
      'reported_by_the_check_as_it_stood_when_the_change_arrived':bool(first),
      'failing_obligations_property_check':vp,'failing_obligations_all_contracts':va,
      'caught':bool(vp),'caught_only_as_undecided':bool(vp) and all(x.startswith('undecided_') for x in vp)})
    json.dump(meta,open(o+'/meta.json','w'),indent=1)
    rows.append((nid,m.group(1),meta))
lines=[]
for nid,prop,meta in rows:
    wb=re.sub(r'\s+',' ',(meta.get('what_breaks') or ''))[:150].replace('|','/')
    vp=meta['failing_obligations_property_check']
    ob=', '.join('`%s`'%x.replace('|','/') for x in vp[:3])+(' …(+%d)'%(len(vp)-3) if len(vp)>3 else '')
    c='**no**' if not vp else ('yes (undecided: contract no longer matches the code)' if meta['caught_only_as_undecided'] else 'yes')
    if vp and not meta['reported_by_the_check_as_it_stood_when_the_change_arrived']: c+=' (after strengthening)'
    lines.append('| %s | %s | %s… | %s | %s |'%(nid,prop,wb,c,ob or '–'))
open('/verif/seeded/CATCH_MATRIX_round%d.md'%ROUND,'w').write('| change | property | what the change does (short) | caught by `/verif/check <id> quick` | failing obligations |\n|---|---|---|---|---|\n'+'\n'.join(lines)+'\n')
print('\n'.join(lines))
