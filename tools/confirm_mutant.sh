#!/bin/bash
# usage: confirm_mutant.sh <candidate-dir>
# Confirms a seeded change in a scratch clone of /repo (never in /repo): the patch applies and builds, the
# existing suite still passes with it, and the demonstration tests pass without the patch and fail with it.
export GOFLAGS=-mod=mod GOPROXY=off GOSUMDB=off GOTOOLCHAIN=local
d=$(cd $1 && pwd); id=$(basename $d)
p=$d/patch.diff; [ -f $d/ported.diff ] && p=$d/ported.diff
s=/tmp/cf_$id; rm -rf $s; git clone -q /repo $s || exit 2
cd $s
place() { # copy the demo tests next to the package they test
  for f in $(cd $d && find . -name '*_test.go'); do
    case $f in ./pkg/*|./tests/*) dest=$(dirname $f);; *)
      pk=$(grep -m1 '^package' $d/$f | awk '{print $2}')
      case $pk in testing) dest=tests;; builder) dest=pkg/builder;; util|util_test) dest=pkg/util;; logger) dest=pkg/logger;;
        option) dest=pkg/option;; parser|parser_test) dest=pkg/parser;; generator|generator_test) dest=pkg/generator;;
        runner|runner_test) dest=pkg/runner;; config) dest=pkg/config;; model_test) dest=pkg/generator/model;; *) echo "unknown package $pk"; exit 2;; esac;;
    esac
    mkdir -p $dest; cp $d/$f $dest/; echo $dest
  done | sort -u
}
tests=$(cd $d && grep -h -o '^func Test[A-Za-z0-9_]*' $(find . -name '*_test.go') | sed 's/func //' | sort -u | tr '\n' '|' | sed 's/|$//')
if ! git apply --check $p 2>/dev/null; then echo "$id: patch does not apply"; rm -rf $s; exit 1; fi
git apply $p
if ! go build ./... 2>/tmp/cf_$id.build; then echo "$id: patched tree does not build"; rm -rf $s; exit 1; fi
suite=PASS; go test -vet=off -count=1 ./... > /tmp/cf_$id.suite 2>&1 || suite=FAIL
pkgs=$(place | sed 's|^|./|' | tr '\n' ' ')
dp=PASS; go test -vet=off -count=1 -timeout 300s -run "^($tests)\$" $pkgs > /tmp/cf_$id.demo_patched 2>&1 || dp=FAIL
git apply -R $p
du_=PASS; go test -vet=off -count=1 -timeout 300s -run "^($tests)\$" $pkgs > /tmp/cf_$id.demo_unpatched 2>&1 || du_=FAIL
echo "$id: build=ok suite_with_patch=$suite demo_unpatched=$du_ demo_patched=$dp pkgs=[$pkgs]"
cd /; rm -rf $s
